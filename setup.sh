#!/bin/bash
set -e
cd "$(dirname "$0")/govc"
export PATH=/opt/veriftools/go1.26.8/bin:$PATH GOFLAGS=-mod=mod GOPROXY=off GOSUMDB=off GOTOOLCHAIN=local
mkdir -p ../bin
go build -o ../bin/govc .
