#!/bin/bash
# tools/sweep_seeds.sh [seed-id ...]: for every seeded change (or the ones named), apply it to a scratch worktree of
# /repo's HEAD, run every claimed check once (govc -prop claimed = union of the registered checks) on that worktree,
# and print which obligations reported it. Appends to seeded/SWEEP.txt (one line per seed). The worktree is removed at the end.
cd /verif || exit 2
WT=/tmp/sweep_wt.$$
git -C /repo worktree add --detach -q $WT HEAD || exit 2
seeds="$@"; [ -z "$seeds" ] && seeds=$(ls seeded | grep -v SWEEP)
echo "# sweep at repo $(git -C /repo rev-parse --short HEAD), verif $(git rev-parse --short HEAD)" | tee -a seeded/SWEEP.txt
for s in $seeds; do
  git -C $WT apply "/verif/seeded/$s/patch.diff" || { echo "$s PATCH-DOES-NOT-APPLY"; continue; }
  files=$(grep '^+++ b/' "/verif/seeded/$s/patch.diff" | sed 's|^+++ b/||' | grep '\.go$' | tr '\n' ',')
  # modular verification: only the functions declared in the files the patch touches can change verdict
  out=$(./bin/govc -repo $WT -prop claimed -files "$files" -replays /tmp/sweep_replays.$$ -j ${SWEEP_J:-8} 2>&1)
  git -C $WT checkout -- .
  n=$(echo "$out" | grep -c "^VIOLATION")
  obs=$(echo "$out" | grep "^VIOLATION" | sed 's/.*obligation=\([^ ]*\).*/\1/' | sed 's/#[0-9]*$//' | sort -u | head -4 | tr '\n' ' ')
  stale=$(echo "$out" | grep -c "UNDECIDED function")
  echo "$s violations=$n stale=$stale $obs"
done | tee -a seeded/SWEEP.txt
rm -rf /tmp/sweep_replays.$$
git -C /repo worktree remove --force $WT
