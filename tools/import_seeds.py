#!/usr/bin/env python3
"""tools/import_seeds.py <PID> ...: copy sub-agent deliveries /tmp/seedwt/out-<PID>/<k>/ to /verif/seeded/<PID>-<n>/ (next free n),
adding the `// place at:` line that tools/confirm_seed.sh reads."""
import json,os,shutil,glob,re,sys
def nextidx(pid):
    n=0
    for d in glob.glob(f'/verif/seeded/{pid}-*'):
        m=re.match(rf'.*/{pid}-(\d+)$',d)
        if m: n=max(n,int(m.group(1)))
    return n+1
rnd=int(os.environ.get('ROUND','5'))
for pid in sys.argv[1:]:
    for k in sorted(glob.glob(f'/tmp/seedwt/out-{pid}/*')):
        if not os.path.exists(k+'/meta.json'): print('skip',k); continue
        meta=json.load(open(k+'/meta.json'))
        idx=nextidx(pid); sid=f'{pid}-{idx}'
        dst=f'/verif/seeded/{sid}'; os.makedirs(dst)
        shutil.copy(k+'/patch.diff',dst+'/patch.diff')
        demo=open(k+'/demo_test.go').read()
        place=meta['demo_pkg'].strip('/').lstrip('./')+f'/zz_seed_{sid.replace("-","_").lower()}_test.go'
        open(dst+'/demo_test.go','w').write(f'// place at: {place}\n'+demo)
        meta['seed']=sid; meta['round']=rnd
        json.dump(meta,open(dst+'/meta.json','w'),indent=1)
        print(sid)
