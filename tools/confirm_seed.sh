#!/bin/bash
# tools/confirm_seed.sh <seed-dir>: in a scratch worktree, confirm that the patch builds, the touched packages' tests pass with it,
# and that the demo fails with the patch and passes without it. Prints a one-line verdict.
export PATH=/opt/veriftools/go1.26.8/bin:$PATH GOFLAGS=-mod=mod GOPROXY=off GOSUMDB=off GOTOOLCHAIN=local
D="$(realpath "$1")"
WT=$(mktemp -d /tmp/confirm_wt.XXXX); rmdir $WT
git -C /repo worktree add --detach -q $WT HEAD || exit 2
cd $WT
place=$(head -3 "$D/demo_test.go" | grep -o "place at: .*" | sed 's/place at: *//' | tr -d '\r')
[ -z "$place" ] && { echo "no place-at line"; git -C /repo worktree remove --force $WT; exit 2; }
pkg=$(dirname "$place")
cp "$D/demo_test.go" "$place"
without=$(go test -vet=off -count=1 -run 'Seed|seed|Demo|C[0-9][0-9]' ./$pkg/ 2>&1 | tail -1)
git apply "$D/patch.diff" || { echo "PATCH-FAILS"; git -C /repo worktree remove --force $WT; exit 1; }
build=$(go build ./... 2>&1 | tail -1)
pkgs=$(git diff --name-only | xargs -n1 dirname | sort -u | sed 's|^|./|')
with=$(go test -vet=off -count=1 -run 'Seed|seed|Demo|C[0-9][0-9]' ./$pkg/ 2>&1 | tail -1)
rm "$place"
existing=$(go test -vet=off -count=1 $pkgs 2>&1 | grep -v "^ok\|no test files" | head -3)
echo "without-patch: $without | build: ${build:-ok} | with-patch: $with | existing-tests: ${existing:-pass}"
cd /; git -C /repo worktree remove --force $WT
