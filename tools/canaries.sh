#!/bin/bash
# tools/canaries.sh [commit ...]: every repaired defect (known_findings.json, status fixed) must be reported again when its
# fix: commit is reverted. Runs on a scratch worktree of /repo's HEAD outside /repo and /verif; removed afterwards.
cd /verif || exit 2
WT=$(mktemp -d /tmp/govc-canary.XXXXXX); rmdir $WT
git -C /repo worktree add --detach -q $WT HEAD || exit 2
trap 'git -C /repo worktree remove --force $WT; rm -rf $WT /tmp/canary_replays.$$' EXIT
fail=0
jq -r '.[] | select(.status=="fixed" and .commit != "" and .kind != "demo") | "\(.commit) \(.property)"' known_findings.json | sort -u | while read c p; do
  if [ $# -gt 0 ] && ! echo "$@" | grep -q "$c"; then continue; fi
  if [ -n "${CANARY_PROP:-}" ] && [ "$p" != "$CANARY_PROP" ]; then continue; fi
  if ! git -C $WT revert --no-commit $c >/dev/null 2>&1; then echo "$c $p REVERT-DOES-NOT-APPLY"; git -C $WT revert --abort 2>/dev/null; git -C $WT reset -q --hard HEAD; continue; fi
  out=$(./bin/govc -repo $WT -prop $p -replays /tmp/canary_replays.$$ -j 12 2>&1)
  n=$(echo "$out" | grep -c "^VIOLATION")
  ob=$(echo "$out" | grep "^VIOLATION" | sed 's/.*obligation=\([^ ]*\).*/\1/' | sed 's/#[0-9]*$//' | sort -u | head -3 | tr '\n' ' ')
  if [ "$n" -gt 0 ]; then echo "$c $p REPORTED-AGAIN violations=$n $ob"; else echo "$c $p NOT-REPORTED"; fi
  git -C $WT reset -q --hard HEAD
done
