#!/usr/bin/env python3
"""Generates /verif/MANIFEST.json from the table below (kept in one place so the manifest is always valid)."""
import json, os
HERE = os.path.dirname(os.path.dirname(os.path.abspath(__file__)))
GO = "PATH=/opt/veriftools/go1.26.8/bin:$PATH GOFLAGS=-mod=mod GOPROXY=off GOSUMDB=off GOTOOLCHAIN=local"
TECH = "contract-based deductive verification: WP/symbolic execution of the real Go AST against //@ contracts, obligations discharged by z3 4.8/5.1 and cvc5"
exec(open(os.path.join(HERE, "tools", "claims.py")).read())
import subprocess
try:
    # every guarded (comment-only contract file) commit in /repo carries the subject prefix "verif:"
    out = subprocess.run(["git", "-C", "/repo", "log", "--format=%H %s"], capture_output=True, text=True).stdout
    auto = [l.split()[0] for l in out.splitlines() if l.split(" ", 1)[1].startswith("verif:")]
    if auto:
        HOOK_COMMITS = list(reversed(auto))
except Exception:
    pass
checks = []
for pid, c in sorted(CLAIMS.items()):
    checks.append({
        "property_id": pid,
        "quick_cmd": f"./check {pid}",
        "thorough_cmd": f"./check {pid} --tier thorough",
        "evidence_file": f"evidence/{pid}.json",
        "replay_cmd_template": "./check %s --replay {path}" % pid,
        "engine": "govc",
        "level_claimed": {"category": "proof", "text": c["text"], "design_ref": c.get("ref", "DESIGN.md §4")},
        "level_note": c["note"],
        "technique": TECH,
    })
props = [json.loads(l)["id"] for l in open(os.path.join(HERE, "properties.jsonl"))]
na = [{"property_id": p, "reason": NA.get(p, "not yet brought under contract (see DESIGN.md §0); no check is registered, so nothing is claimed")} for p in props if p not in CLAIMS]
m = {
    "version": 1,
    "setup_cmd": "./setup.sh",
    "hooks": {
        "guard": "verif",
        "enable": "go build -tags verif ./... (the only guarded files are comment-only zz_contracts_verif.go; govc loads packages with -tags=verif)",
        "baseline_off_cmd": "cd /repo && " + GO + " go test -mod=mod -json -vet=off -count=1 -timeout 25m ./...",
        "source_commits": HOOK_COMMITS,
        "add_only": True,
    },
    "engines": [{"name": "govc", "path": "govc/", "serves_properties": sorted(CLAIMS), "kind_free_text": "verification-condition generator for a Go subset (go/packages + go/types), contracts as //@ comments in build-tagged files in /repo, SMT back ends z3/z3-new/cvc5"}],
    "checks": checks,
    "not_applicable": na,
    "notes": "Every check loads /repo's current working tree. A claimed obligation that is no longer discharged is reported as VIOLATION; known findings are in known_findings.json.",
}
json.dump(m, open(os.path.join(HERE, "MANIFEST.json"), "w"), indent=1)
print("claims:", sorted(CLAIMS), "n/a:", len(na))
