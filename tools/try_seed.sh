#!/bin/bash
# tools/try_seed.sh <seed-dir> <prop> [<prop>...]: apply the patch to /repo, run the checks, undo.
D="$(realpath "$1")"; shift
cd /repo || exit 2
git diff --quiet || { echo "repo dirty"; exit 2; }
git apply "$D/patch.diff" || { echo "patch does not apply"; exit 2; }
for p in "$@"; do
  (cd /verif && ./bin/govc -prop "$p" -evidence /tmp/seed_evidence.json 2>&1 | grep "VIOLATION\|^govc\|UNDECIDED function\|BROKEN" | cut -c1-260 | head -6)
done
git checkout -- . ; git status --short | head -3
