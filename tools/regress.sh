#!/bin/bash
# full regression over every contract in /repo: must report 0 refuted / 0 undecided
cd /verif && ./bin/govc -prop all "$@" 2>&1 | grep "UNDECIDED\|REFUTED\|BROKEN\|^govc\|error" | cut -c1-220
