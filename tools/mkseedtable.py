#!/usr/bin/env python3
"""Regenerates the seeded-changes table of DESIGN.md (between the SEEDS markers) from seeded/*/meta.json."""
import json,glob,re,os
rows=[]; det=0
dirs=sorted(glob.glob('/verif/seeded/C*-*'), key=lambda x:(os.path.basename(x).split('-')[0], int(os.path.basename(x).split('-')[1])))
for d in dirs:
    m=json.load(open(d+'/meta.json'))
    sid=os.path.basename(d)
    summ=(m.get('summary') or '').replace('\n',' ').replace('|','/')
    summ=summ[:170]+('…' if len(summ)>170 else '')
    db=m.get('detected_by','?')
    if db.startswith('MISSED'): by='**missed**'
    else:
        det+=1
        by=re.sub(r'\(\d+ obligations stop discharging\)','',db).replace('DETECTED by ','').strip()[:110]
    rows.append(f'| {sid} | {summ} | {by} |')
head=f'{len(dirs)} confirmed, **{det} detected, {len(dirs)-det} missed** (`tools/sweep_seeds.sh`, results in `seeded/SWEEP.txt`).\n\n| seed | what it changes | detected by |\n|------|-----------------|-------------|\n'
s=open('/verif/DESIGN.md').read()
a=s.index('<!-- SEEDS-BEGIN -->')+len('<!-- SEEDS-BEGIN -->\n'); b=s.index('<!-- SEEDS-END -->')
s=s[:a]+head+'\n'.join(rows)+'\n'+s[b:]
open('/verif/DESIGN.md','w').write(s)
print(len(dirs),det)
