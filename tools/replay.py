#!/usr/bin/env python3
"""./check <id> --replay <file>: re-run the obligation recorded in a replay file (its SMT script) on the three solvers.
Exit 0 if the obligation discharges (unsat), 1 with a VIOLATION line otherwise."""
import json, subprocess, sys, tempfile, os
pid, path = sys.argv[1], sys.argv[2]
r = json.load(open(path))
print(f"obligation: {r['obligation']}\nclause:     {r['clause']}\nposition:   {r['position']}\nrecorded:   {r['verdict']} ({r['solver']})")
smt = r.get("smt")
if not smt:
    print("no SMT script recorded"); sys.exit(2)
with tempfile.NamedTemporaryFile("w", suffix=".smt2", delete=False) as f:
    f.write(smt); fn = f.name
ok = False
for cmd in (["z3-new", "-T:30", fn], ["z3", "-T:30", fn], ["cvc5", "--tlimit=30000", fn]):
    try:
        out = subprocess.run(cmd, capture_output=True, text=True, timeout=40).stdout.strip().split("\n")[0]
    except Exception as e:
        out = "error: %s" % e
    print(f"{cmd[0]}: {out}")
    if out == "unsat":
        ok = True
os.unlink(fn)
if ok:
    print("the recorded obligation discharges with this script (the script was generated from the tree at the time of the report)")
    sys.exit(0)
print(f"VIOLATION property={pid} replay={path} obligation={r['obligation']} no-failing-input-found")
sys.exit(1)
