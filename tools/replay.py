#!/usr/bin/env python3
"""./check <id> --replay <file>: re-run the obligation recorded in a replay file (its SMT script) on the three solvers.
Exit 0 if the obligation discharges (unsat), 1 with a VIOLATION line otherwise."""
import json, subprocess, sys, tempfile, os
pid, path = sys.argv[1], sys.argv[2]
r = json.load(open(path))
print(f"obligation: {r['obligation']}\nclause:     {r['clause']}\nposition:   {r['position']}\nrecorded:   {r['verdict']} ({r['solver']})")
fi = r.get("failing_input")
if fi:
    # a concrete failing input was recorded: run the harness again on /repo's current tree (in-package test via -overlay)
    import re
    print(f"failing input: {fi['input']}\nviolated:      {fi['clause']}")
    harness = json.load(open(os.path.join(os.path.dirname(os.path.dirname(os.path.abspath(__file__))), "replay", "harness.json")))
    h = harness.get(r["function"])
    if h:
        ov = tempfile.NamedTemporaryFile("w", suffix=".json", delete=False)
        json.dump({"Replace": {f"/repo/{h['pkg']}/zz_replay_verif_test.go": f"/verif/replay/{h['file']}"}}, ov); ov.close()
        env = dict(os.environ, PATH="/opt/veriftools/go1.26.8/bin:" + os.environ["PATH"], GOFLAGS="-mod=mod", GOPROXY="off", GOSUMDB="off", GOTOOLCHAIN="local")
        out = subprocess.run(["go", "test", "-overlay", ov.name, "-vet=off", "-count=1", "-timeout", "120s", "-run", h["run"], f"./{h['pkg']}/"], cwd="/repo", env=env, capture_output=True, text=True).stdout
        os.unlink(ov.name)
        fails = [l for l in out.splitlines() if l.startswith("REPLAY-FAIL ")]
        if fails:
            print("real code, current tree:", fails[0])
            print(f"VIOLATION property={pid} replay={path} obligation={r['obligation']} failing-input reproduced")
            sys.exit(1)
        print("real code, current tree: the harness finds no failing input any more")
smt = r.get("smt")
if not smt:
    print("no SMT script recorded"); sys.exit(2)
with tempfile.NamedTemporaryFile("w", suffix=".smt2", delete=False) as f:
    f.write(smt); fn = f.name
ok = False
for cmd in (["z3-new", "-T:30", fn], ["z3", "-T:30", fn], ["cvc5", "--tlimit=30000", fn]):
    try:
        out = subprocess.run(cmd, capture_output=True, text=True, timeout=40).stdout.strip().split("\n")[0]
    except Exception as e:
        out = "error: %s" % e
    print(f"{cmd[0]}: {out}")
    if out == "unsat":
        ok = True
os.unlink(fn)
if ok:
    print("the recorded obligation discharges with this script (the script was generated from the tree at the time of the report)")
    sys.exit(0)
print(f"VIOLATION property={pid} replay={path} obligation={r['obligation']} no-failing-input-found")
sys.exit(1)
