#!/bin/bash
# tools/tickfail.sh <prop>: groups the undecided obligations of Machine.tick by opcode of the path (debug aid)
P=${1:-W01}
for f in replays/$P/vm_Machine_tick_*.json; do
  op=$(jq -r .smt "$f" | grep -o "(assert (= op![0-9]* [0-9]*))" | tail -1 | sed 's/.* \([0-9]*\)))/\1/')
  cl=$(jq -r .clause "$f" | cut -c1-150)
  echo "op=$op $(jq -r .obligation $f) :: $cl"
done | sort
