HOOK_COMMITS = ['20c5bda44c5b57174b02a8da88de1c680cb2d6b6', 'fa4f5514684a9feff03b043497a55ef3f2bee848', '09cd0aad1d95367e9e7d8714f8eda56d0cc7f4f3', '663a1ed881c5b7adb92e4dc595c8abd9a876fe77', '48bb514d15416cadbc41880bc79212a0559c4ea4', '271f66b0dbc7f4d6374c397361bf7092bac6ad21', '129f95268b5951096d7796d892103670ff3da07a', 'dce3450c9883891426534d6d2d8599335e01cd82', 'f8b5271aa55e9dd0605d980b80bcb5209f480a2d', '268c4319b5d2e73c04c70ebb30c716fb7095bce8', '6b2266efdac6753b5a7f5a16fd8246a74320e188', 'a32b93457403772fd0bd74be85c1bc970da6efe0', '2939f564350560785cbde7ba12f611fca6f479a6', '33ea14499147aa6fa4414ae09c9faf34b4460b02', 'a8861dd5563abdfe82f018d8f117b0fb9a2286e4', '618ac0f09e77a3f92a4d7ef940c2cc4ef58ba6d8', '4c3cdbea57b2ce0f800d4cef90ab052963285dcf']
CLAIMS = {'C01': {'note': 'Not decided (SQL): the upsert input=input+excluded.input, aggregated balances, point-in-time reads, migration 11. Assumed: slices.SortStableFunc permutes. The final summation over '
                 'entries (uniqueness of keys) is argued in DESIGN.md, not mechanised.',
         'ref': 'DESIGN.md §4 C01',
         'text': 'Go link of double-entry conservation, proved for every posting list: Transaction.VolumeUpdates returns, for every (account, asset) touched by a posting, an entry whose Input is '
                 'exactly the sum of the amounts credited to that pair and whose Output is exactly the sum debited (source==destination postings counted on both sides), every entry is of that form '
                 '(also after the stable sort), and Store.CommitTransaction hands exactly that list to UpdateVolumes, once. Hence the delta applied to stored volumes has, per asset, equal total '
                 'input and output = the sum of posting amounts.'},
 'C02': {'note': 'Not decided: that reads return what the upsert stored; PIT/aggregate SQL. Trusted: Store.UpdateVolumes adds each delta to the stored row.',
         'ref': 'DESIGN.md §4 C02',
         'text': "Same contracts as C01 read per entry: the delta for each (account, asset) equals (credits, debits) of the committed transaction's postings; reverts go through the same "
                 'CommitTransaction (revertTransaction commits exactly one reversed transaction, C15); failed and dry-run writes commit nothing (C07). Volumes.Balance returns input - output as a '
                 'fresh big integer.'},
 'C03': {'note': "Assumed: UpdateVolumes ... RETURNING gives the stored post-state for every updated (account, asset). 'Never change afterwards' is a storage fact. "
                 'Moves.ComputePostCommitEffectiveVolumes and the effective-volume triggers are not covered (C04 n/a).',
         'ref': 'DESIGN.md §4 C03',
         'text': 'Proved on Store.CommitTransaction for every posting list, as POSTCONDITIONS (not only loop invariants): tx.PostCommitVolumes is a deep copy of what UpdateVolumes returned, taken '
                 'before the unwinding mutates the map (an alias-mutation obligation fails if the copy is dropped); with MOVES_HISTORY on exactly 2 moves per posting are inserted, once, in the order '
                 'source move then destination move of posting 0, 1, ...; the source move of posting i carries the running volumes of (source, asset) after the first i postings were credited and the '
                 'first i+1 debited, the destination move the running volumes of (destination, asset) after the first i+1 postings, where running = final volumes minus the (credits, debits) of the '
                 'later postings (spec functions runIn / runOut, unbounded integers). PostCommitVolumes.AddInput/AddOutput/Copy/SubtractPostings have exact per-entry contracts with frames.'},
 'C06': {'note': 'Not decided (outside this technique): row locks / SELECT FOR UPDATE, READ COMMITTED interleavings, the insert-zero-row trick - every concurrent schedule. Assumed contract: '
                 'Store.GetBalances returns exactly the requested pairs with non-nil values; Store.RevertTransaction returns well-formed postings. Machine.tick / compiler not covered here.',
         'ref': 'DESIGN.md §4 C06',
         'text': 'Sequential half of the overdraft property, proved for all inputs on the Go code: (1) Machine.withdrawAll takes max(0, balance+overdraft) and leaves the tracked balance at '
                 '-overdraft or unchanged, never lower; (2) DefaultController.revertTransaction, when not forced, returns nil only if for every (account, asset) pair returned by GetBalances (= the '
                 'original destinations) other than world, balance + credits - debits of the reversed postings is >= 0 (loop invariants over the reversed posting list, unbounded integers), and it '
                 'never dereferences a missing balance (finding F1, fixed).'},
 'C07': {'note': 'Assumed (trusted base): the Store interface contracts (BeginTX returns a fresh open handle, Commit/Rollback close it), i.e. Postgres really discards a rolled-back transaction; '
                 "fault points inside one store method; uninterpreted callees (numscript runtime, tracing) do not call Store write methods. The link 'function passed as fn satisfies the fnparam "
                 "contract' is checked by the concrete functions' own contracts having the same clauses, not by a generated refinement obligation.",
         'ref': 'DESIGN.md §4 C07',
         'text': 'Go transaction discipline proved for every path (incl. the retry loop) of forgeLog, forgeLogRetry, runTx, runLog over a typestate model of Store handles: an error, a dry run or an '
                 'idempotency hit commits nothing (nCommit, committedLogs, committedFnRuns unchanged); a successful non-dry-run write commits exactly once, with exactly one fn run and one InsertLog '
                 'in the committed handle; every opened SQL transaction is closed; no pre-existing handle is written to. The seven functions run inside forgeLog (createTransaction, '
                 'revertTransaction, the metadata writers, upsertTransactionAccounts) are proved to call mutating Store methods only on the store they were given.'},
 'C08': {'note': 'Not decided (outside this technique): log ids strictly increase in commit order (Postgres sequence + advisory lock), replaying payloads reproduces the state (whole-history property '
                 "over SQL). Assumed: Store interface contracts (InsertLog appends one row to the handle's transaction; Commit makes them durable).",
         'ref': 'DESIGN.md §4 C08',
         'text': 'Go half, proved for every path of forgeLog / forgeLogRetry / runTx / runLog (retry loop included) over the Store typestate model: a successful non-dry-run write that is not an '
                 'idempotency hit commits exactly one SQL transaction containing exactly one InsertLog and one run of the operation (committedLogs + 1); an error, a dry run or an idempotency hit '
                 "commits no log; runLog inserts at most one log, on the handle it was given, carrying the request's idempotency key, hash and schema version; the functions run inside forgeLog never "
                 'call InsertLog (their write frame is the store they were given, and InsertLog is only reachable from runLog and importLog). DefaultController.Import is under contract: with '
                 'maxLogID the largest log id present (ghost, read from the first row of the logs listing), every imported log is handed to InsertLog with an id strictly greater than maxLogID, in '
                 'its own store transaction that is committed or rolled back; a stream whose ids do not strictly increase is refused. NewLog produces a log without id (the database assigns it).'},
 'C13': {'note': 'Not decided: two concurrent sessions with the same key (unique index + READ COMMITTED). Assumed: an InsertLog failing with an idempotency-key conflict implies a committed log with '
                 "that key is readable (the panic in forgeLogRetry is assumed unreachable on that ground); type assertion of the stored payload to the operation's output type succeeds; "
                 'ComputeIdempotencyHash is a function of its input.',
         'ref': 'DESIGN.md §4 C13',
         'text': 'Sequential half of idempotency, proved on forgeLog/forgeLogRetry/fetchLogWithIK/runLog: an idempotency hit or a hash mismatch runs no fn and commits nothing; a write commits at '
                 "most once per call also across the retry loop; the retry never reuses a closed transaction handle; the stored log carries the request's key; revert's metadata helper does not "
                 "mutate the request input that is hashed afterwards. An idempotency hit (from fetchLogWithIK, forgeLog and the retry path forgeLogRetry alike) carries a log with the request's key "
                 'whose stored hash is empty (legacy) or equals the hash of the request input; a different hash is an error. Round 9: assertions to a type parameter are of unknown outcome (F34: a '
                 'key stored without hash and reused on another write kind panicked in fetchLogWithIK).'},
 'C15': {'note': 'Assumed: Store.RevertTransaction returns modified=false for an already reverted transaction (conditional UPDATE; raced behaviour is a database property); metadata.Metadata.Merge '
                 'lets its argument override (go-libs, mergo). Not covered: that balances return to their previous values in SQL.',
         'ref': 'DESIGN.md §4 C15',
         'text': 'Proved for all posting lists: Postings.Reverse returns exactly the reversed list with source/destination swapped and amounts/assets kept (two loops with invariants); '
                 'Transaction.Reverse/WithPostings/WithTimestamp carry it; revertTransaction returns nil only if the store reported the transaction as newly reverted, commits exactly one transaction '
                 'whose postings are the reverse of the original, dated at the original timestamp (atEffectiveDate) or at RevertedAt, and marked with the reverts key = the original id (MarkReverts, '
                 'Merge order).'},
 'C17': {'note': 'Not decided (SQL): last-write-wins merge (metadata || ?), deletion (metadata - ?), the history triggers, what the joined sub-select returns, chart default metadata on insert. '
                 'Assumed: each bun builder method records its own argument and keeps what was recorded before (assumed contracts on Join/ColumnExpr/Column/Where/...); time.Time.IsZero is a function '
                 'of its receiver.',
         'ref': 'DESIGN.md §4 C17',
         'text': 'Go gates only — which feature decides the point-in-time metadata read, proved on the query builders for every option value and all four feature combinations: '
                 'transactionsResourceHandler.BuildDataset joins the transactions_metadata history exactly when TRANSACTION_METADATA_HISTORY == SYNC and a non-zero PIT is given, and selects the '
                 'current `metadata` column exactly otherwise; accountsResourceHandler.BuildDataset likewise with ACCOUNT_METADATA_HISTORY and accounts_metadata / accounts.metadata. The bun query '
                 'builder is abstracted to a descriptor (which JOIN fragments and column expressions a query carries). The transactions clause was refuted on the original tree (finding F8: the '
                 'account feature was tested) and is repaired.'},
 'C21': {'note': 'Assumed: the database returns rows matching ORDER/WHERE/LIMIT; the sort key is unique; cursor (de)serialisation is the identity; the pagination key of a row (reflection) is an '
                 'uninterpreted function; the clauses on next/previous are assertions on local variables at the return statement because encodeCursor is opaque. A forged cursor with paginationID set '
                 'and bottom null makes BuildCursor dereference nil when the page is empty (precondition of the contract; candidate finding noted in DESIGN.md).',
         'ref': 'DESIGN.md §4 C21',
         'text': 'Go half of cursor pagination, proved for every page size, result length and order: columnPaginator.Paginate issues LIMIT pageSize+1 (default 15), the order (flipped when reversing) '
                 'and exactly the WHERE operator of the four (order, direction) cases; columnPaginator.BuildCursor returns min(len, pageSize) rows (reversed back on reverse pages), HasMore iff the '
                 'extra row came back, next/previous cursors carrying the pagination id of the right row (index obligations included) and the bottom id; OffsetPaginator.Paginate/BuildCursor likewise '
                 'with offset arithmetic (overflow and MaxInt32 guards). Round 8: OrderExpression of both paginators (the outer ORDER BY) is the order the inner query used, reversed for reverse '
                 'cursors; cursor-derived queries are validated before a paginator is built (F26).'},
 'C22': {'note': 'Trusted about compiler output (listed in the tick contract as requires): the typed stack discipline, spelled out per opcode as `requires` of tick (stackShape(op): which types the '
                 "top of the stack holds); pop's 5-line generic body is assumed GIVEN that precondition, popValue is verified, OP_APUSH operand bytes, OP_BUMP / MAKE_ALLOTMENT / FUNDING_ASSEMBLE "
                 'counts within the stack, OP_TAKE_ALWAYS / OP_SAVE / OP_ALLOC amounts >= 0, OP_ALLOC allotment sums to 1. Not proved: the compile scheme (ANTLR visitors) that turns a send statement '
                 "into TAKE ... SEND, Machine.Execute's loop (goroutine + defer; the induction over ticks is the standard invariant argument, DESIGN Appendix B), NewAllotment (assumed). Concat "
                 "overwrites the receiver's last part in place (value semantics for slices assumed at call sites).",
         'ref': 'DESIGN.md §4 C22',
         'text': 'VM level, for every bytecode program (a superset of compiled scripts): Machine.tick is verified opcode by opcode (90 paths) against a step contract. With R(a,x) = credits - debits '
                 'of the emitted postings minus the funds still in flight on the stack, every successful step keeps all stack fundings and posting amounts non-negative and non-nil, appends postings '
                 'only in OP_SEND and then exactly one per part of the popped funding (source = part account, destination = popped account, same asset, same amount, in order), and changes each '
                 'tracked non-world balance by exactly the change of R (exact conservation: nothing is created or lost between balances, in-flight funds and postings) for every opcode except OP_SAVE '
                 'and a metadata/print/asset opcode applied to a funding. Exact value clauses per opcode (round 7): OP_TAKE leaves a funding whose total is exactly the requested amount and succeeds '
                 'only if 0 <= amount <= total of the source funding; OP_TAKE_MAX leaves a funding of min(amount, total) and reports max(0, amount - total) as missing; OP_ALLOC pushes one monetary '
                 'per portion, topmost first, each the floor share plus one unit for the first (amount - sum of floors) portions; OP_SAVE lowers the tracked balance by exactly the saved amount ([A '
                 'n]) or to min(balance, 0) ([A *]) and nothing else; OP_IADD / ISUB / MONETARY_NEW / MONETARY_ADD / MONETARY_SUB / FUNDING_SUM compute exactly the sum, difference, pair or total '
                 'they name. Component contracts underneath, all proved for all inputs (unbounded integers, any number of parts): Funding.Take returns exactly the requested amount or an '
                 'insufficient-funds error iff amount < 0 or > total; Take/TakeMax/Concat/Reverse conserve per-account sums; credit/repay/withdrawAll/withdrawAlways change exactly the balances they '
                 'name.'},
 'C23': {'note': 'Trusted: the operand conditions listed under C22 (stack discipline of compiler output), that the compiler emits OP_TAKE_ALWAYS only for @world and sources declared unbounded (read '
                 "off VisitSource, not proved), the induction over Execute's loop (argued in DESIGN Appendix B, not mechanised: Execute starts a goroutine and defers a close). ResolveBalances is "
                 'under contract for panic-freedom and the shape of Machine.Balances it leaves (non-nil nested maps, non-nil amounts, given a store that returns non-nil amounts), not for T = initial '
                 '(the store is an interface).',
         'ref': 'DESIGN.md §4 C23',
         'text': "VM level, for every bytecode program: with T the machine's tracked balance and R = initial + credits - debits - in-flight funds (the real balance if everything in flight were "
                 "sent), Machine.tick is proved to satisfy, for every tracked (account, asset) and every opcode: (1) T' - T <= R' - R, hence T <= R is inductive (the machine's view is never "
                 "optimistic); (2) R' >= R for every opcode other than OP_TAKE_ALL / OP_TAKE_ALWAYS; (3) OP_TAKE_ALL on (a,x) with overdraft o lowers R by exactly max(0, T+o), so with (1) R' >= "
                 'min(R, -o); OP_TAKE_ALWAYS (unbounded sources only) lowers R by the amount taken; tracked pairs stay tracked. By induction over ticks a bounded source never ends below min(initial, '
                 '-largest bound granted), for all amounts and all programs. withdrawAll takes exactly max(0, T+o) and leaves T at -o or unchanged; credit/repay/withdrawAlways have exact frames.'},
 'C24': {'note': 'Proved on the Go code of internal/machine/allotment.go and monetary.go. Assumed: math/big is exact and big.Int.Div is Euclidean; big.Rat denominators are positive. Not covered: '
                 "NewAllotment (rational arithmetic), the compiler's check that portions total 100% (ANTLR visitors).",
         'ref': 'DESIGN.md §4 C24',
         'text': 'Allotment.Allocate is proved, for every non-negative amount (unbounded integer) and every portion vector with positive denominators summing to 1, to return parts that sum exactly '
                 'to the amount, each equal to the floor share plus one unit for the earliest L parts where L is the leftover (0 <= L < number of parts). Loop invariants incl. the nonlinear floor '
                 'sandwich are discharged by SMT. NewAllotment is verified (it was assumed): the result has positive denominators and non-negative numerators, sums to at most 1, to exactly 1 when a '
                 '`remaining` portion is present, two `remaining` are refused, and every specific portion is copied unchanged. Allocate is also checked for machine-integer overflow (round 8).'},
 'C27': {'note': "NOT covered: Execute's loop and the ANTLR-generated compiler (arbitrary bytes -> program); the typed-stack operand conditions of tick are trusted about compiler output; OP_PRINT's "
                 'channel send is dropped; regular expressions are uninterpreted predicates; regexp.FindStringSubmatch group counts are assumed.',
         'ref': 'DESIGN.md §4 C27',
         'text': 'Panic-freedom, for all inputs, of the functions that turn client strings into machine values and of the script builder: NewValueFromString (all six types; the JSON null number, '
                 'finding F5, fixed), ParsePortionSpecific / NewPortionSpecific, ParseMonetary, ValidateAccountAddress / ValidateAsset, TxToScriptData (its three panics are proved unreachable by a '
                 'loop invariant over the variable maps). Postconditions state what a successfully parsed value satisfies (non-nil, valid address/asset, amount >= 0). Machine.tick: for every opcode '
                 'and every machine state satisfying the operand conditions, no nil dereference, no out-of-range index, no failed type assertion, no reachable panic (OP_SAVE default case), no '
                 'nil-map write; the program counter strictly increases on every successful step (so Execute terminates within len(Instructions) steps). Machine.ResolveResources and '
                 'Machine.ResolveBalances (round 7): for every program whose resources are typed as the compiler declares them (declAccount / declAsset / balanceSlotsOK / NeededBalances typing, '
                 'listed as requires) and every store answer, no nil dereference, failed type assertion, out-of-range index or nil-map write; ResolveBalances leaves Balances well-formed (wfBal), '
                 "which is tick's precondition. tick reports finished with every error (Execute drops an error returned otherwise)."},
 'C28': {'note': 'Assumed: stored transactions returned by Store.RevertTransaction are well formed; accounts.Pattern / assets.Pattern are uninterpreted predicates. Not covered: direct SQL writes, '
                 'migrations.',
         'ref': 'DESIGN.md §4 C28',
         'text': 'Validation dominance, proved on every path: every call of Store.CommitTransaction in the controller (createTransaction for scripts, templates and postings requests; '
                 "revertTransaction; importLog) is reached only with postings that satisfy Postings.Validate's predicate (non-nil amount >= 0, valid source/destination address, valid asset). "
                 'Postings.Validate itself is proved to decide exactly that predicate and to return the first offending index. Two gaps were found and fixed (script results, imported logs).'},
 'C29': {'note': 'The recursive chart walk findAccountSchema (map-of-struct recursion, regexp) is outside the verified subset: its verdict is the uninterpreted predicate chartAccepts, so which '
                 "addresses a chart accepts is NOT decided. Not decided: 'never overwrite existing values' and 'no effect' persistence (UpsertAccounts SQL, rollback = C07), "
                 'AccountsWithDefaultMetadata (generic Map over a closure).',
         'ref': 'DESIGN.md §4 C29',
         'text': 'Go control flow of schema enforcement, proved for every path: runLog - a named schema version that does not exist yields ErrSchemaNotFound, a lookup failure yields an error, both '
                 'before the operation runs and without a log; without a version, when the payload needs a schema and one exists, strict mode returns ErrSchemaNotSpecified without running the '
                 'operation or inserting a log, while audit mode runs it; a log failing ValidateWithSchema is not inserted in strict mode. createTransaction - on a schema with templates a '
                 'template-less request is rejected in strict mode, an unknown template is rejected, a template on a schema without templates is rejected, all before any store write; the committed '
                 "transaction carries the template name. CreatedTransaction.ValidateWithSchema returns nil iff every posting's source and destination are accepted by the chart (loop invariant, any "
                 'number of postings); ChartOfAccounts.ValidatePosting likewise; ChartAccount.DefaultMetadata returns exactly the keys with a default and their values. saveAccountMetadata hands '
                 "UpsertAccounts exactly the request's metadata as Metadata and the chart defaults only as DefaultMetadata (applied by the store on first insert; never merged over existing values). "
                 'findAccountSchema (the recursive chart matcher) cannot panic for any chart and address and returns an account iff it returns no error.'},
 'C31': {'note': 'Assumed: the underlying Controller publishes nothing itself; Controller.LockLedger on a transactional handle stays in that transaction. The parent chain is modelled read-only '
                 '(queueing on the parent is not written back: no heap model). Not covered: internal/bus (the listener turning callbacks into messages - seeded change C31-3 is missed), '
                 'controllerFacade.handleState, atomic bulk (C32).',
         'ref': 'DESIGN.md §4 C31',
         'text': 'Proved on ControllerWithEvents: handleEvent never invokes a callback while hasTx; the seven write wrappers hand exactly one callback to handleEvent iff the underlying call returned '
                 'nil and the request is not a dry run; Commit invokes the queued callbacks only after the underlying Commit returned nil and returns nil iff it did; Rollback drops them; BeginTX '
                 "yields hasTx=true and LockLedger inherits hasTx (finding F2, fixed). Together with C07's forgeLog contract (nil only after commit) no event precedes or lacks its commit on these "
                 'paths. controllerFacade.handleState (first write on an initializing ledger): the write runs on the locked child of the BeginTX controller, the BeginTX controller — the one holding '
                 'the queued events — is the one committed, nothing is committed on error or dry run, and the ledger is marked in-use only after that commit succeeded. Round 9: an idempotency hit is '
                 'not a write — the seven ControllerWithEvents write methods publish nothing for it (F33: they did).'},
 'C32': {'note': 'Assumed (outside the subset: goroutines, select, channels, worker pool): Bulker.run runs elements on the controller it is given, reports hasError iff an element failed, and stops '
                 'after the first failure unless continueOnFailure; FIFO order of a one-worker pool; UnmarshalBulkElementPayload yields the payload type matching the action (precondition of '
                 'processElement).',
         'ref': 'DESIGN.md §4 C32',
         'text': 'Proved on Bulker.Run for all options: atomic+parallel is rejected before anything runs; a non-atomic bulk never begins, commits or rolls back a controller transaction and runs on '
                 "the bulker's controller; an atomic bulk runs on the controller returned by BeginTX, rolls back exactly once and never commits when an element failed, and attempts exactly one "
                 "commit (error propagated) otherwise. processElement is proved to issue at most one controller write per element, exactly one on success, on the given controller, with the element's "
                 "idempotency key, the bulk's schema version and DryRun=false, and never to panic for a decoded element. An element that is processed reports an error iff it sets the bulk's error "
                 'flag (so `run` reports a failure for every failed element, with or without continueOnFailure).'},
 'C35': {'note': 'Not decided: that the transactions, logs, balances and metadata produced by a history are identical across the 48 combinations (which triggers default_bucket.go installs, and SQL); '
                 'the HASH_LOGS branch of InsertLog; accounts Expand(volumes) without PIT is refused although it would not need the moves table (over-strict, not a wrong answer). Assumed: the bun '
                 'builder contracts of C17; regexp.MatchString/FindAllStringSubmatch shape facts.',
         'ref': 'DESIGN.md §4 C35',
         'text': 'Go gates, proved for every feature map and every query: Store.CommitTransaction calls UpdateVolumes and InsertTransaction independently of the features and InsertMoves iff '
                 'MOVES_HISTORY == ON; a read that needs a disabled feature is refused with ErrMissingFeature and no query: volumes BuildDataset with PIT or OOT needs MOVES_HISTORY; aggregated '
                 'balances at a PIT need MOVES_HISTORY (insertion date) or MOVES_HISTORY_POST_COMMIT_EFFECTIVE_VOLUMES (effective date); accounts balance filters at a PIT need both; accounts '
                 'Expand(volumes / effectiveVolumes) and transactions Expand(effectiveVolumes) need their feature; Ledger.HasFeature is only called with valid (feature, value) pairs (its panic is '
                 'unreachable). Two missing gates were found as refuted obligations and repaired (F12, F13).'},
 'C36': {'note': "Not decided: SQL numeric columns, JSON encoders of the responses, every API version's rendering, aggregation and filtering in SQL. Assumed (math/big documentation): "
                 'big.Rat.SetString parses the exact rational (in lowest terms), big.Int.Quo truncates, big.Int.String is the decimal rendering. ScriptV1.UnmarshalJSON (json.Decoder.UseNumber) is '
                 'not under contract; the demo test findings/F7_json_number_amount exercises it. float64 values handed to ToCore by programmatic callers keep the lossy conversion.',
         'ref': 'DESIGN.md §4 C36',
         'text': 'Go arithmetic paths, proved for all magnitudes: every arithmetic contract of C01-C03, C06, C22-C24 is over mathematical (unbounded) integers, so values above 2^63 and 2^64 are the '
                 'general case, and every conversion of an integer to a narrower machine type inside a function under contract carries a range obligation (none is left undischarged). For the JSON '
                 'path: vm.numberToInteger returns the decimal rendering of the integer part of the exact rational the JSON number denotes (big.Rat, no float), and ScriptV1.ToCore renders a '
                 'json.Number amount through it and an integral json.Number variable as its exact decimal; MonetaryInt Add/Sub/Neg/comparisons and Allotment.Allocate are exact. The original '
                 'float64/int() path lost precision above 2^53 and overflowed above 2^63 (finding F7, repaired: ScriptV1 decodes with json.Number).'},
 'C38': {'note': 'Not covered: the chi router and status-code mapping of every route, the go-libs query.Builder walk that connects validateFilters to ResolveFilter (the ResolveFilter requires state '
                 "what it guarantees), DefaultController.Import's outer loop (reads through an interface chain that is opaque). 'Ledger unchanged' is C07.",
         'ref': 'DESIGN.md §4 C38',
         'text': 'Panic-freedom of request-decoding paths, for all inputs: v1 Script.ToCore (F6 fixed), ScriptV1.ToCore, TransactionRequest.ToCore, Postings.Validate, TxToScriptData, '
                 'Bulker.processElement, LogType / SavedMetadata / DeletedMetadata UnmarshalJSON (F9, F10 fixed) and importLog (F11 fixed: nil ids, unchecked type assertions on imported logs, which '
                 'run in a goroutine outside the recover middleware). Also: the bulk script-stream parser ParseTextStream (runs in its own goroutine; two panics found and fixed, F19), the filter '
                 'value validators TypeString/TypeBoolean.ValidateValue (a validated value has the type the storage handlers assert), the accounts and transactions ResolveFilter handlers (no failing '
                 'type assertion or index on validated filters), accounts.ValidateAddress / assets.IsValid. Filter operators (round 7): common.ConvertOperatorToSQL panics on anything but the six '
                 'comparison operators, so it `requires` one; the logs / schemas / accounts / volumes / transactions / ledgers ResolveFilter handlers are verified to establish it from the operator '
                 'lists of the entity schemas (queries.Type*.Operators, under contract), stated over the key validateFilters looks up (the name before the first [). Two defects found and fixed this '
                 'way (F22: $in / $exists reaching the panic; F23: metadata[balance[x]] resolved as a balance filter). Reflection-based decoders (round 7): HydrateLog and UnmarshalBulkElementPayload '
                 'are verified with json.Unmarshal into an interface value and reflect.ValueOf(x).Elem().Interface() modelled (nil interface / non-pointer = obligation): no panic for any type string '
                 'and any data (F24: a JSON null payload, fixed), and an accepted bulk element has one of the four actions, spelled exactly, with the payload type processElement asserts. Import '
                 '(round 8): Store.InsertLog requires, for a log that arrives with its id, volumes that cover its postings (what Transaction.MarshalJSON dereferences); importLog is verified to '
                 'establish it (F25: client-supplied volumes crashed the import goroutine). Cursors (round 8): the paginator constructors require a page size that cannot wrap and, for column '
                 'cursors, a date or numeric column; Paginate is verified to establish both for queries decoded from client cursors (F26). Error classes (round 8): every error a ResolveFilter '
                 'handler returns is storage/common.ErrInvalidQuery or ErrMissingFeature, the classes the API maps to 400 (F27: a second ErrInvalidQuery type and plain errors were answered with '
                 '500). Expansions (round 9): unknown expand values never reach the SQL text and refused expansions are invalid-query errors (F31). Date filters: TypeDate.ValidateValue accepts '
                 'exactly strings that parse, and NormalizeDateFilterValue then returns no (unwrapped, 500) error.'}}
NA = {'C04': 'Effective volumes are computed by the PL/pgSQL triggers set_effective_volumes / update_effective_volumes; no Go function computes them, so no contract on the Go code can state or decide the '
        'property.',
 'C05': 'Point-in-time / window reads are SQL text (first_value ... over, date predicates); a contract can say which string was built, not what Postgres returns for it.',
 'C09': 'Hash chain linearity is pg_advisory_xact_lock plus a BEFORE INSERT trigger under concurrent sessions; SHA-256 and session interleavings are outside a WP calculus over sequential Go.',
 'C10': 'Byte-for-byte agreement of encoding/json output with an SQL string concatenation over adversarial strings: both sides are outside the verifier (reflection-driven encoder, PL/pgSQL).',
 'C11': 'Whole-system round trip through export, import, sequence resync and three write paths on a database; no single function or data-structure invariant carries it.',
 'C12': 'Exclusivity rests on Postgres advisory locks and the _system.ledgers state row under concurrent sessions; the Go code only issues the statements.',
 'C14': 'Uniqueness is a partial unique index; the Go side is a constraint-name to error mapping, too thin to stand for the property.',
 'C16': 'Id allocation and ordering are Postgres sequences and commit order.',
 'C18': 'Existence / first-usage rules are the UpsertAccounts CTE (LEAST(first_usage), insert-if-absent); the Go fragment does not decide the property.',
 'C19': 'Isolation is a ledger = ? predicate in every SQL statement and its interaction with the alone-in-bucket optimisation; that is a property of query results.',
 'C20': 'Filter semantics live in generated SQL (@>, lateral joins, jsonb operators); needs the database as oracle.',
 'C25': "Recording 'exactly as submitted' goes through TxToScriptData -> ANTLR parse -> compile -> Machine.Execute; the ANTLR-generated parser and the visitor-based compiler are outside the "
        "generator's Go subset (reflection-free but thousands of generated lines, interface-heavy), and the Machine.tick step invariant is not established (work in progress, tag W01). The reachable "
        'pieces are proved under other properties: Postings.Validate and TransactionRequest.ToCore (C28/C38), TxToScriptData panic-freedom (C27), withdrawAll / Funding.Take exactness (C22/C23). A '
        'bounded stand-in would be a test, not a contract proof, and is not claimed.',
 'C26': 'Differential agreement with github.com/formancehq/numscript, an external library without contracts; a relational property between two implementations, not a contract on one.',
 'C30': 'The round trip is ChartSegment.MarshalJSON / UnmarshalJSON over map[string]any built by encoding/json (reflection) and a recursive map-of-struct chart; neither the JSON codec nor the '
        "recursive chart type is within the generator's subset, and a bounded enumeration would be a test rather than a contract proof.",
 'C33': 'Goroutines, select, timers, at-least-once delivery and liveness: concurrency and eventuality are outside this family (no thread or temporal reasoning in a WP calculus).',
 'C34': 'create_blocks is a stored procedure; commit/id reordering is a database-concurrency phenomenon.',
 'C37': 'Result equality between a template run and a direct query depends on the store; the Go part is JSON/string templating (ResolveFilterTemplate) that the generator cannot reach; '
        'templateParamsToQuery is covered under C21.'}
