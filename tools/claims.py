HOOK_COMMITS = ['a8861dd5563abdfe82f018d8f117b0fb9a2286e4', '618ac0f09e77a3f92a4d7ef940c2cc4ef58ba6d8', '4c3cdbea57b2ce0f800d4cef90ab052963285dcf']
CLAIMS = {
 "C24": {"text": "Allotment.Allocate is proved, for every non-negative amount (unbounded integer) and every portion vector with positive denominators summing to 1, to return parts that sum exactly to the amount, each equal to the floor share plus one unit for the earliest L parts where L is the leftover (0 <= L < number of parts). Loop invariants incl. the nonlinear floor sandwich are discharged by SMT.",
         "note": "Proved on the Go code of internal/machine/allotment.go and monetary.go. Assumed: math/big is exact and big.Int.Div is Euclidean; big.Rat denominators are positive. Not covered: NewAllotment (rational arithmetic), the compiler's check that portions total 100% (ANTLR visitors).", "ref": "DESIGN.md §4 C24"},
}
NA = {}
