package main

// Per-function verification driver: entry state, requires, body, ensures at every return, frame.

import (
	"fmt"
	"go/ast"
	"go/token"
	"go/types"
	"sort"
	"strings"
)

type FuncResult struct {
	Contract *FuncContract
	Name     string
	Obls     []*Obligation
	Notes    []string
	Abort    string
	Paths    int
	Assumed  []string // assumed contracts used
	Callees  []string // verified contracts used
	Decls    []string
	Batches  []*Obligation
}

func (p *Program) funcDisplayName(fc *FuncContract) string {
	n := fc.Obj.Pkg().Name() + "."
	if fc.RecvType != "" {
		n += strings.TrimPrefix(fc.RecvType, "*") + "."
	}
	return n + fc.Name
}

// VerifyLit verifies the N-th function literal (source order) of root's declaration against its `lit N:` contract.
// Variables captured from the enclosing function are arbitrary values of their types.
func VerifyLit(p *Program, ss *Sorts, reg *SpecReg, root *FuncContract, ord string, lc *FuncContract) (res *FuncResult) {
	var lit *ast.FuncLit
	n := 0
	if root.Decl != nil && root.Decl.Body != nil {
		ast.Inspect(root.Decl.Body, func(nd ast.Node) bool {
			if fl, ok := nd.(*ast.FuncLit); ok {
				n++
				if fmt.Sprint(n) == ord && lit == nil {
					lit = fl
				}
			}
			return true
		})
	}
	lc.Pkg, lc.Obj, lc.Decl = root.Pkg, root.Obj, root.Decl
	if len(lc.Props) == 0 {
		lc.Props = root.Props
	}
	lc.RecvType, lc.litNode = root.RecvType, lit
	return VerifyFunc(p, ss, reg, lc)
}

func VerifyFunc(p *Program, ss *Sorts, reg *SpecReg, fc *FuncContract) (res *FuncResult) {
	fv := &FV{p: p, ss: ss, reg: reg, fc: fc, pk: fc.Pkg, info: fc.Pkg.TypesInfo,
		entryVars: map[string]Term{}, entryGhost: map[string]Term{}, specParam: map[string]types.Object{},
		modset: map[string]bool{}, loopOrd: map[ast.Stmt]string{}, litOrd: map[*ast.FuncLit]string{},
		notes: map[string]int{}, oblSeq: map[string]int{}, maxPath: 4000,
		ifaceLink: map[string]Term{}, boxed: map[string]Term{}, boxedFrom: map[string]boxInfo{}, assumedUsed: map[string]bool{}, calleesUsed: map[string]bool{}}
	fv.curFunc = p.funcDisplayName(fc)
	if fc.litNode != nil || strings.Contains(fc.Name, "$lit") {
		fv.curFunc = strings.Replace(fv.curFunc, "$lit", "/lit", 1)
	}
	res = &FuncResult{Contract: fc, Name: fv.curFunc}
	if v := fc.Opts["paths"]; v != "" {
		fmt.Sscan(v, &fv.maxPath)
	}
	defer func() {
		if r := recover(); r != nil {
			if a, ok := r.(abortErr); ok {
				res.Abort = a.msg
			} else {
				panic(r)
			}
		}
		res.Obls = fv.obls
		res.Batches = fv.batches
		res.Paths = fv.paths
		res.Decls = fv.decls
		for n, c := range fv.notes {
			if c > 1 {
				n = fmt.Sprintf("%s (x%d)", n, c)
			}
			res.Notes = append(res.Notes, n)
		}
		sort.Strings(res.Notes)
		for k := range fv.assumedUsed {
			res.Assumed = append(res.Assumed, k)
		}
		sort.Strings(res.Assumed)
		for k := range fv.calleesUsed {
			res.Callees = append(res.Callees, k)
		}
		sort.Strings(res.Callees)
	}()
	fd := fc.Decl
	if fd == nil || fd.Body == nil {
		fv.abort(token.NoPos, "no source for %s", fv.curFunc)
	}
	if strings.Contains(fc.Name, "$lit") {
		if fc.litNode == nil {
			fv.abort(fd.Pos(), "stale contract: function literal of %s not found", fv.curFunc)
		}
		return fv.verifyLitBody(res, fd, fc.litNode)
	}
	for _, m := range fc.Modifies {
		fv.modset[m] = true
	}
	// loop ordinals in source order
	n := 0
	ast.Inspect(fd.Body, func(nd ast.Node) bool {
		switch s := nd.(type) {
		case *ast.ForStmt:
			n++
			fv.loopOrd[s] = fmt.Sprint(n)
		case *ast.RangeStmt:
			n++
			fv.loopOrd[s] = fmt.Sprint(n)
		}
		return true
	})
	for ord := range fc.Loops {
		found := false
		for _, o := range fv.loopOrd {
			if o == ord {
				found = true
			}
		}
		if !found {
			// the loop the contract speaks about is gone (refactored away): its invariants are simply unused; the function
			// is still checked against its pre/postconditions, which decide whether the change preserved the property
			fv.note("contract names loop " + ord + " which no longer exists; its invariants are ignored")
		}
	}
	st := &State{vars: map[types.Object]Term{}, alias: map[types.Object]*Path{}, ghost: map[string]Term{}}
	sig := fc.Obj.Type().(*types.Signature)
	fv.curSig = sig
	// receiver and parameters
	bindParam := func(specName string, id *ast.Ident, t types.Type) {
		var obj types.Object
		if id != nil {
			obj = fv.info.Defs[id]
		}
		if obj == nil {
			obj = types.NewVar(token.NoPos, fv.pk.Types, specName, t)
		}
		so := ss.Of(t)
		sym := fv.fresh(specName, so)
		st.vars[obj] = sym
		if isUnsigned(t) {
			st.assume(T(sx(">=", sym.S, "0"), SBool))
		} else {
			for _, f := range fv.unsignedFacts(sym, t, 3) {
				st.assume(T(f, SBool))
			}
		}
		if specName != "_" && specName != "" {
			fv.specParam[specName] = obj
			fv.entryVars[specName] = sym
		}
	}
	if fd.Recv != nil && len(fd.Recv.List) == 1 {
		r := fd.Recv.List[0]
		var id *ast.Ident
		if len(r.Names) > 0 {
			id = r.Names[0]
		}
		name := fc.RecvName
		if name == "" {
			name = "_recv"
		}
		bindParam(name, id, sig.Recv().Type())
		if so := ss.Of(sig.Recv().Type()); so.Kind == KPtr && id != nil {
			st.assume(tNot(tEq(st.vars[fv.info.Defs[id]], ptrNil(so))))
			fv.note("pointer receiver assumed non-nil")
		}
	}
	i := 0
	for _, f := range fd.Type.Params.List {
		if len(f.Names) == 0 {
			bindParam(fc.Params[i], nil, sig.Params().At(i).Type())
			i++
			continue
		}
		for _, nm := range f.Names {
			bindParam(fc.Params[i], nm, sig.Params().At(i).Type())
			i++
		}
	}
	fv.resNames = fc.Results
	if fd.Type.Results != nil {
		for _, f := range fd.Type.Results.List {
			for _, nm := range f.Names {
				obj := fv.info.Defs[nm]
				so := ss.Of(obj.Type())
				st.vars[obj] = Term{ss.Zero(so), so}
				fv.curResObjs = append(fv.curResObjs, obj)
			}
		}
	}
	for _, g := range reg.gorder {
		sym := fv.fresh(g+"_0", reg.ghosts[g].Sort)
		st.ghost[g] = sym
		fv.entryGhost[g] = sym
	}
	// requires
	for _, c := range fc.Requires {
		t, err := fv.specEnv(st, token.NoPos, nil, false).EvalBool(c.X)
		if err != nil {
			fv.abort(fd.Pos(), "requires %q: %v", c.Text, err)
		}
		st.assume(t)
	}
	// vacuity cover at entry
	fv.cover(st, "cover-entry", fd.Pos(), "requires and entry assumptions are satisfiable")
	nret := 0
	ctl := &Ctl{brk: map[string]Kont{}, cont: map[string]Kont{}}
	var afterDefers func(s2 *State, vals []Term)
	ctl.ret = func(s2 *State, vals []Term) {
		nret++
		// deferred calls, LIFO; a deferred function literal may branch (defer func() { if !done { rollback } }()): each
		// of its exit paths continues with the remaining deferred calls
		defers := s2.defers
		s2.defers = nil
		fv.runDefers(s2, defers, len(defers)-1, func(s3 *State) { afterDefers(s3, vals) })
	}
	afterDefers = func(s2 *State, vals []Term) {
		n0 := len(fv.obls)
		pc0 := s2.pc[:len(s2.pc):len(s2.pc)]
		var goals []string
		for _, c := range fc.Ensures {
			t, err := fv.specEnv(s2, token.NoPos, vals, true).EvalBool(c.X)
			if err != nil {
				fv.abort(fd.Pos(), "ensures %q: %v", c.Text, err)
			}
			if t.S != "true" {
				goals = append(goals, t.S)
			}
			fv.assert(s2, "post", t, fd.Pos(), c.Text)
		}
		if kids := fv.obls[n0:]; len(kids) > 1 {
			// all postconditions of this return path are first tried as one conjunction
			b := &Obligation{Name: kids[0].Name + "..batch", Kind: "batch", Func: fv.curFunc, Text: "conjunction of the postconditions of one return path",
				Pos: kids[0].Pos, PC: pc0, Goal: sx("and", goals...), NDecl: len(fv.decls), Props: fv.fc.Props, fv: fv}
			b.Batch = append([]*Obligation{}, kids...)
			for _, k := range kids {
				k.InBatch = b
			}
			fv.batches = append(fv.batches, b)
		}
		// frame: ghosts and reference parameters that are not declared modified stay unchanged
		for _, g := range reg.gorder {
			if !fv.modset[g] && s2.ghost[g].S != fv.entryGhost[g].S {
				fv.assert(s2, "frame", tEq(s2.ghost[g], fv.entryGhost[g]), fd.Pos(), "ghost "+g+" is not modified")
			}
		}
		for _, name := range sortedKeys(fv.specParam) {
			obj := fv.specParam[name]
			if fv.modset[name] {
				continue
			}
			cur, ok := s2.vars[obj]
			if !ok {
				continue
			}
			if isRefKind(cur.Sort) && cur.S != fv.entryVars[name].S && !fv.reassigned(obj, fd) {
				fv.assert(s2, "frame", tEq(cur, fv.entryVars[name]), fd.Pos(), "parameter "+name+" is not modified (not listed in modifies)")
			}
		}
	}
	fv.execBlock(st, fd.Body.List, ctl, func(s2 *State) {
		var vals []Term
		for _, o := range fv.curResObjs {
			vals = append(vals, fv.readVar(s2, o))
		}
		if sig.Results().Len() > 0 && len(vals) == 0 {
			return // unreachable end (e.g. after infinite loop or panic)
		}
		ctl.ret(s2, vals)
	})
	return res
}

func (fv *FV) isBuiltinCall(c *ast.CallExpr, name string) bool {
	id, ok := c.Fun.(*ast.Ident)
	if !ok || id.Name != name {
		return false
	}
	_, isB := fv.info.ObjectOf(id).(*types.Builtin)
	return isB
}

// reassigned reports whether the variable itself (not something reachable from it) is assigned in the body.
func (fv *FV) reassigned(obj types.Object, fd *ast.FuncDecl) bool {
	found := false
	ast.Inspect(fd.Body, func(n ast.Node) bool {
		if as, ok := n.(*ast.AssignStmt); ok {
			for _, l := range as.Lhs {
				if id, ok := l.(*ast.Ident); ok && fv.info.ObjectOf(id) == obj {
					found = true
				}
			}
		}
		return true
	})
	return found
}

func (fv *FV) cover(st *State, kind string, pos token.Pos, text string) {
	fv.oblSeq[kind]++
	o := &Obligation{
		Name:  fmt.Sprintf("%s/%s#%d", fv.curFunc, kind, fv.oblSeq[kind]),
		Kind:  "cover",
		Func:  fv.curFunc,
		Text:  text,
		Pos:   fv.posStr(pos),
		PC:    st.pc[:len(st.pc):len(st.pc)],
		Goal:  "false",
		NDecl: len(fv.decls),
		Props: fv.fc.Props,
		fv:    fv,
	}
	fv.obls = append(fv.obls, o)
}

// verifyLitBody: entry state = arbitrary captured variables + literal parameters; ensures checked at each return of the literal.
func (fv *FV) verifyLitBody(res *FuncResult, fd *ast.FuncDecl, lit *ast.FuncLit) *FuncResult {
	fc := fv.fc
	for _, m := range fc.Modifies {
		fv.modset[m] = true
	}
	n := 0
	ast.Inspect(lit.Body, func(nd ast.Node) bool {
		switch s := nd.(type) {
		case *ast.ForStmt:
			n++
			fv.loopOrd[s] = fmt.Sprint(n)
		case *ast.RangeStmt:
			n++
			fv.loopOrd[s] = fmt.Sprint(n)
		}
		return true
	})
	st := &State{vars: map[types.Object]Term{}, alias: map[types.Object]*Path{}, ghost: map[string]Term{}}
	sig := fv.info.TypeOf(lit).(*types.Signature)
	fv.curSig = sig
	// captured variables and parameters
	ast.Inspect(lit, func(nd ast.Node) bool {
		id, ok := nd.(*ast.Ident)
		if !ok {
			return true
		}
		v, ok := fv.info.ObjectOf(id).(*types.Var)
		if !ok || v.IsField() || v.Pkg() == nil || v.Parent() == v.Pkg().Scope() {
			return true
		}
		if _, has := st.vars[v]; has {
			return true
		}
		declaredOutside := v.Pos() < lit.Body.Pos() || v.Pos() > lit.End()
		isParam := v.Pos() >= lit.Type.Pos() && v.Pos() < lit.Body.Pos()
		if declaredOutside || isParam {
			sym := fv.fresh(v.Name(), fv.ss.Of(v.Type()))
			st.vars[v] = sym
			fv.entryVars[v.Name()] = sym
			fv.specParam[v.Name()] = v
			if so := fv.ss.Of(v.Type()); so.Kind == KPtr && v.Name() != "_" && declaredOutside {
				// the enclosing method's receiver
				if fd.Recv != nil && len(fd.Recv.List) == 1 && len(fd.Recv.List[0].Names) == 1 && fv.info.Defs[fd.Recv.List[0].Names[0]] == v {
					st.assume(tNot(tEq(sym, ptrNil(so))))
				}
			}
		}
		return true
	})
	// parameters and receiver of the enclosing function are in scope of the contract even if the literal does not use them
	bindOuter := func(id *ast.Ident) {
		if id == nil || id.Name == "_" {
			return
		}
		v, ok := fv.info.Defs[id].(*types.Var)
		if !ok {
			return
		}
		if _, has := st.vars[v]; has {
			return
		}
		sym := fv.fresh(v.Name(), fv.ss.Of(v.Type()))
		st.vars[v] = sym
		if _, shadow := fv.specParam[v.Name()]; !shadow {
			fv.entryVars[v.Name()] = sym
			fv.specParam[v.Name()] = v
		}
	}
	if fd.Recv != nil {
		for _, f := range fd.Recv.List {
			for _, n := range f.Names {
				bindOuter(n)
			}
		}
	}
	for _, f := range fd.Type.Params.List {
		for _, n := range f.Names {
			bindOuter(n)
		}
	}
	fv.resNames = fc.Results
	for _, g := range fv.reg.gorder {
		sym := fv.fresh(g+"_0", fv.reg.ghosts[g].Sort)
		st.ghost[g] = sym
		fv.entryGhost[g] = sym
	}
	for _, c := range fc.Requires {
		t, err := fv.specEnv(st, token.NoPos, nil, false).EvalBool(c.X)
		if err != nil {
			fv.abort(lit.Pos(), "requires %q: %v", c.Text, err)
		}
		st.assume(t)
	}
	fv.cover(st, "cover-entry", lit.Pos(), "requires and entry assumptions are satisfiable")
	ctl := &Ctl{brk: map[string]Kont{}, cont: map[string]Kont{}}
	ctl.ret = func(s2 *State, vals []Term) {
		for j := len(s2.defers) - 1; j >= 0; j-- {
			d := s2.defers[j]
			if dl, ok := stripParens(d.call.Fun).(*ast.FuncLit); ok {
				fv.inlineLit(s2, dl, d.call.Args, d.call.Pos())
			} else if !fv.isBuiltinCall(d.call, "close") {
				fv.evalCall(s2, d.call)
			}
		}
		s2.defers = nil
		for _, c := range fc.Ensures {
			t, err := fv.specEnv(s2, token.NoPos, vals, true).EvalBool(c.X)
			if err != nil {
				fv.abort(lit.Pos(), "ensures %q: %v", c.Text, err)
			}
			fv.assert(s2, "post", t, lit.Pos(), c.Text)
		}
		for _, g := range fv.reg.gorder {
			if !fv.modset[g] && s2.ghost[g].S != fv.entryGhost[g].S {
				fv.assert(s2, "frame", tEq(s2.ghost[g], fv.entryGhost[g]), lit.Pos(), "ghost "+g+" is not modified")
			}
		}
	}
	fv.execBlock(st, lit.Body.List, ctl, func(s2 *State) { ctl.ret(s2, nil) })
	return res
}


// runDefers executes deferred calls j, j-1, ..., 0 on st and then continues with k. Function literals are executed in
// continuation-passing style so that every exit path of the literal is followed.
func (fv *FV) runDefers(st *State, defers []deferred, j int, k func(*State)) {
	if j < 0 {
		k(st)
		return
	}
	d := defers[j]
	next := func(s2 *State) { fv.runDefers(s2, defers, j-1, k) }
	if lit, ok := stripParens(d.call.Fun).(*ast.FuncLit); ok {
		sig := fv.info.TypeOf(lit).(*types.Signature)
		var args []Term
		for _, a := range d.call.Args {
			args = append(args, fv.evalExpr(st, a))
		}
		i := 0
		for _, f := range lit.Type.Params.List {
			for _, n := range f.Names {
				if obj := fv.info.Defs[n]; obj != nil && i < len(args) {
					st.vars[obj] = args[i]
				}
				i++
			}
		}
		if fv.inlineDepth > 3 {
			fv.abort(d.call.Pos(), "function literal nesting too deep")
		}
		fv.inlineDepth++
		saveSig, saveRes := fv.curSig, fv.curResObjs
		fv.curSig, fv.curResObjs = sig, nil
		lctl := &Ctl{brk: map[string]Kont{}, cont: map[string]Kont{}}
		restore := func(s2 *State) {
			// leaving the literal: back to the enclosing function's signature for the remaining defers / postconditions
			fv.curSig, fv.curResObjs = saveSig, saveRes
			fv.inlineDepth--
			next(s2)
			fv.inlineDepth++
			fv.curSig, fv.curResObjs = sig, nil
		}
		lctl.ret = func(s2 *State, _ []Term) { restore(s2) }
		fv.execBlock(st, lit.Body.List, lctl, restore)
		fv.curSig, fv.curResObjs = saveSig, saveRes
		fv.inlineDepth--
		return
	}
	if fv.isBuiltinCall(d.call, "close") {
		fv.note("deferred close dropped")
	} else {
		fv.evalCall(st, d.call)
	}
	next(st)
}
