package main

import (
	"os/exec"
	"encoding/json"
	"flag"
	"fmt"
	"io/fs"
	"os"
	"path/filepath"
	"sort"
	"strings"
	"time"
)

type KnownFinding struct {
	Property string `json:"property"`
	Status   string `json:"status"` // "known" or "fixed"
	Func     string `json:"func"`
	Kind     string `json:"kind"`
	Clause   string `json:"clause"`
	What     string `json:"what"`
	Commit   string `json:"commit,omitempty"`
}

func contractPackages(repo string) []string {
	seen := map[string]bool{}
	var out []string
	filepath.WalkDir(repo, func(path string, d fs.DirEntry, err error) error {
		if err != nil {
			return nil
		}
		if d.IsDir() && (d.Name() == ".git" || d.Name() == "node_modules") {
			return filepath.SkipDir
		}
		if !d.IsDir() && strings.HasSuffix(d.Name(), "_contracts_verif.go") {
			rel, _ := filepath.Rel(repo, filepath.Dir(path))
			if !seen[rel] {
				seen[rel] = true
				out = append(out, "./"+rel)
			}
		}
		return nil
	})
	sort.Strings(out)
	return out
}

// hasProp: p is a property id or a comma-separated list of ids.
func hasProp(ps []string, p string) bool {
	for _, want := range strings.Split(p, ",") {
		for _, x := range ps {
			if x == want {
				return true
			}
		}
	}
	return false
}

// claimedProps reads the property ids of the registered checks from MANIFEST.json (for -prop claimed).
func claimedProps(path string) string {
	data, err := os.ReadFile(path)
	if err != nil {
		return ""
	}
	var m struct {
		Checks []struct {
			PropertyID string `json:"property_id"`
		} `json:"checks"`
	}
	if json.Unmarshal(data, &m) != nil {
		return ""
	}
	var ids []string
	for _, c := range m.Checks {
		ids = append(ids, c.PropertyID)
	}
	return strings.Join(ids, ",")
}

func main() {
	repo := flag.String("repo", "/repo", "repository root")
	prop := flag.String("prop", "all", "property id (or all)")
	slow := flag.Int("slow", 0, "print the N slowest obligations")
	only := flag.String("func", "", "verify only functions whose display name contains this string")
	writeBindings := flag.String("write-bindings", "", "write the binding table (locals of every function under contract) to this file and exit")
	bindingsFile := flag.String("bindings", "/verif/contracts/bindings.json", "binding table used to follow renamed locals")
	onlyFiles := flag.String("files", "", "verify only functions declared in these source files (comma-separated path suffixes); modular verification makes this complete for a change confined to those files")
	tier := flag.String("tier", "quick", "quick|thorough")
	evidence := flag.String("evidence", "", "evidence file to write")
	replayDir := flag.String("replays", "/verif/replays", "directory for replay files")
	specDir := flag.String("specs", "/verif/contracts", "directory with *.spec files (assumed contracts)")
	known := flag.String("known", "/verif/known_findings.json", "known findings file")
	timeout := flag.Int("timeout", 0, "per-obligation solver timeout (s)")
	workers := flag.Int("j", 10, "parallel obligations")
	keep := flag.String("keep", "", "keep all VC files in this directory")
	verbose := flag.Bool("v", false, "verbose")
	dump := flag.String("dump", "", "print the SMT script of the obligation with this name")
	seed := flag.Int("seed", 0, "seed (recorded; the proof is deterministic)")
	stability := flag.Int("stability", 0, "re-run every discharged obligation with this many z3 random seeds and report the ones that do not always discharge")
	flag.Parse()
	label := *prop
	if *prop == "claimed" {
		if ids := claimedProps("MANIFEST.json"); ids != "" {
			*prop = ids
		}
	}
	t0 := time.Now()
	// the repository needs go >= 1.26 (the default go of the sandbox is older): make `go list` use the right toolchain, offline
	if _, err := os.Stat("/opt/veriftools/go1.26.8/bin/go"); err == nil {
		os.Setenv("PATH", "/opt/veriftools/go1.26.8/bin:"+os.Getenv("PATH"))
	}
	os.Setenv("GOFLAGS", "-mod=mod")
	os.Setenv("GOPROXY", "off")
	os.Setenv("GOSUMDB", "off")
	os.Setenv("GOTOOLCHAIN", "local")
	if *timeout == 0 {
		*timeout = 15
		if *tier == "thorough" {
			*timeout = 60
		}
	}
	pats := contractPackages(*repo)
	if len(pats) == 0 {
		fmt.Println("govc: no contract files found")
		os.Exit(2)
	}
	prog, err := LoadProgram(*repo, pats)
	if err != nil {
		fmt.Println("govc: load:", err)
		os.Exit(2)
	}
	loadS := time.Since(t0).Seconds()
	ss := NewSorts(prog)
	prog.ReadContracts()
	if fi, err := os.Stat(*specDir); err == nil && fi.IsDir() {
		files, _ := filepath.Glob(filepath.Join(*specDir, "*.spec"))
		sort.Strings(files)
		for _, f := range files {
			prog.ReadSpecFile(f)
		}
	}
	if *writeBindings != "" {
		tbl := map[string][]LocalBinding{}
		for _, fc := range prog.Order {
			if fc.Decl != nil && fc.Pkg != nil && fc.Pkg.TypesInfo != nil {
				tbl[prog.funcDisplayName(fc)] = bindingsOf(fc.Pkg.TypesInfo, fc.Decl)
			}
		}
		data, _ := json.MarshalIndent(tbl, "", " ")
		os.MkdirAll(filepath.Dir(*writeBindings), 0o755)
		os.WriteFile(*writeBindings, data, 0o644)
		fmt.Printf("govc: bindings of %d functions written to %s\n", len(tbl), *writeBindings)
		return
	}
	if data, err := os.ReadFile(*bindingsFile); err == nil {
		json.Unmarshal(data, &bindingTable)
	}
	reg := NewSpecReg(prog, ss)
	reg.Build()
	broken := false
	for _, e := range prog.Errors {
		fmt.Println("govc: error:", e)
		broken = true
	}
	var results []*FuncResult
	var all []*Obligation
	var batches []*Obligation
	nfun := 0
	inFiles := func(fc *FuncContract) bool {
		if *onlyFiles == "" {
			return true
		}
		if fc.Decl == nil || fc.Pkg == nil {
			return false
		}
		fn := fc.Pkg.Fset.Position(fc.Decl.Pos()).Filename
		for _, suf := range strings.Split(*onlyFiles, ",") {
			if suf != "" && strings.HasSuffix(fn, suf) {
				return true
			}
		}
		return false
	}
	for _, fc := range prog.Order {
		if !inFiles(fc) {
			continue
		}
		// function literals with their own contract (also inside assumed functions)
		for _, ord := range sortedKeys(fc.Lits) {
			lc := fc.Lits[ord]
			if len(lc.Props) == 0 {
				lc.Props = fc.Props
			}
			if *prop != "all" && !hasProp(lc.Props, *prop) {
				continue
			}
			if *only != "" && !strings.Contains(prog.funcDisplayName(fc), *only) {
				continue
			}
			nfun++
			r := VerifyLit(prog, ss, reg, fc, ord, lc)
			results = append(results, r)
			all = append(all, r.Obls...)
			batches = append(batches, r.Batches...)
		}
		if fc.Assumed {
			continue
		}
		if *prop != "all" && !hasProp(fc.Props, *prop) {
			continue
		}
		if *only != "" && !strings.Contains(prog.funcDisplayName(fc), *only) {
			continue
		}
		nfun++
		r := VerifyFunc(prog, ss, reg, fc)
		results = append(results, r)
		all = append(all, r.Obls...)
		batches = append(batches, r.Batches...)
	}
	// lemma obligations for the folds
	// fold lemmas are proved in the runs that use the fold
	usedSyms := map[string]bool{}
	for _, o := range all {
		for s := range symbolsOf(o.Goal) {
			usedSyms[s] = true
		}
		for _, pc := range o.PC {
			if strings.Contains(pc, "F_") {
				for s := range symbolsOf(pc) {
					usedSyms[s] = true
				}
			}
		}
	}
	for _, fc := range prog.Order {
		// spec-level uses inside contracts of the selected functions are covered by the obligations above
		_ = fc
	}
	lemmaSeen := map[string]bool{}
	for _, f := range reg.order {
		if len(f.Lemmas) > 0 && !usedSyms[f.SMT] && *prop != "all" {
			continue
		}
		for _, l := range f.Lemmas {
			if lemmaSeen[l.Name] {
				continue
			}
			lemmaSeen[l.Name] = true
			all = append(all, &Obligation{Name: l.Name, Kind: "lemma", Func: "prelude", Text: l.Name, Raw: l.Body})
		}
	}
	for i, pn := range reg.pins {
		if *prop == "all" || hasProp(pn.Props, *prop) {
			all = append(all, &Obligation{Name: fmt.Sprintf("pin#%d", i+1), Kind: "pin", Func: "constants", Text: pn.Text, Pos: pn.Line, Raw: "(assert (not " + pn.Goal + "))\n"})
		}
	}
	for _, l := range reg.lemmaVCs {
		all = append(all, &Obligation{Name: l.Name, Kind: "lemma", Func: "prelude", Text: l.Name, Raw: l.Body})
	}
	dir := *keep
	tmpDir := ""
	if dir == "" {
		dir, _ = os.MkdirTemp("", "govc-vc-")
		tmpDir = dir
	} else {
		os.MkdirAll(dir, 0o755)
	}
	em := &Emitter{ss: ss, reg: reg}
	if *dump != "" {
		for _, o := range all {
			if o.Name == *dump {
				fmt.Println(em.Script(o))
			}
		}
		if tmpDir != "" {
			os.RemoveAll(tmpDir)
		}
		return
	}
	// conjunctions first: a discharged batch discharges its members
	Discharge(em, batches, dir, min(*timeout, 5), *workers, false)
	var rest []*Obligation
	for _, o := range all {
		if o.InBatch != nil && o.InBatch.Verdict == "DISCHARGED" {
			o.Verdict, o.Solver, o.Time = "DISCHARGED", o.InBatch.Solver+" (batch)", 0
			continue
		}
		rest = append(rest, o)
	}
	failures.Store(0)
	Discharge(em, rest, dir, *timeout, *workers, *keep != "")
	// Second chance, so that a loaded machine does not turn a timeout into an alarm: obligations the solvers gave no
	// answer for (timeout / unknown, never sat) are re-run a few at a time with three times the budget. On a tree
	// where everything discharges this costs nothing; the number of retries is capped so that a broken function
	// (many failing obligations) is still reported quickly.
	var again []*Obligation
	for _, o := range rest {
		if o.Verdict == "UNDECIDED" && o.Kind != "cover" {
			again = append(again, o)
		}
	}
	// Conjunct splitting: an undecided goal of the form (and A B ..) or (=> P (and A B ..)) is re-tried one conjunct at
	// a time under the same path condition (sound: every conjunct proved ⇒ the conjunction proved). Solvers often fail on
	// the conjunction of several quantified facts that they prove separately at once.
	{
		var parts []*Obligation
		parents := map[*Obligation][]*Obligation{}
		for _, o := range again {
			if o.Raw != "" || o.fv == nil {
				continue
			}
			gs := splitGoal(o.Goal)
			if len(gs) < 2 {
				continue
			}
			for k, g := range gs {
				c := &Obligation{Name: fmt.Sprintf("%s.c%d", o.Name, k+1), Kind: o.Kind, Func: o.Func, Text: o.Text, Pos: o.Pos, Props: o.Props,
					PC: o.PC, Goal: g, NDecl: o.NDecl, fv: o.fv, Reveal: o.Reveal}
				parts = append(parts, c)
				parents[o] = append(parents[o], c)
			}
		}
		if len(parts) > 0 {
			failuresByFunc.Range(func(k, _ any) bool { failuresByFunc.Delete(k); return true })
			Discharge(em, parts, dir, *timeout, *workers, *keep != "")
			var still []*Obligation
			for _, o := range again {
				cs, ok := parents[o]
				if !ok {
					still = append(still, o)
					continue
				}
				all, t := true, 0.0
				for _, c := range cs {
					t += c.Time
					if c.Verdict != "DISCHARGED" {
						all = false
						if c.Verdict == "REFUTED" {
							o.Verdict, o.Output = "REFUTED", c.Output
						}
					}
				}
				o.Time += t
				if all {
					o.Verdict, o.Solver = "DISCHARGED", fmt.Sprintf("split into %d conjuncts", len(cs))
				} else {
					still = append(still, o)
				}
			}
			again = nil
			for _, o := range still {
				if o.Verdict == "UNDECIDED" {
					again = append(again, o)
				}
			}
		}
	}
	if n := len(again); n > 0 && n <= 24 {
		for _, o := range again {
			failuresByFunc.Delete(o.Func)
		}
		Discharge(em, again, dir, *timeout*3, max(2, *workers/4), *keep != "")
		for _, o := range again {
			if o.Verdict == "DISCHARGED" {
				o.Solver += " (retry)"
			}
		}
	}
	if *stability > 0 {
		Stability(em, all, dir, *stability, *workers)
	}
	if tmpDir != "" {
		os.RemoveAll(tmpDir)
	}

	// known findings
	var kfs []KnownFinding
	if data, err := os.ReadFile(*known); err == nil {
		json.Unmarshal(data, &kfs)
	}
	matchKnown := func(o *Obligation) *KnownFinding {
		for i := range kfs {
			k := &kfs[i]
			if k.Status == "known" && k.Func == o.Func && k.Kind == o.Kind && (k.Clause == "" || k.Clause == o.Text) && (*prop == "all" || hasProp([]string{k.Property}, *prop)) {
				return k
			}
		}
		return nil
	}
	discharged, total, covers := 0, 0, 0
	solverTime := 0.0
	bySolver := map[string]int{}
	var violations []*Obligation
	var undecided []*Obligation
	knownHit := map[string]bool{}
	for _, o := range all {
		solverTime += o.Time
		if o.Kind == "cover" {
			covers++
			if o.Verdict == "VACUOUS" {
				fmt.Printf("BROKEN-CHECK vacuous precondition: %s (%s)\n", o.Name, o.Text)
				broken = true
			}
			continue
		}
		total++
		switch o.Verdict {
		case "DISCHARGED":
			discharged++
			bySolver[strings.TrimSuffix(o.Solver, " (cached)")]++
		default:
			if k := matchKnown(o); k != nil {
				if !knownHit[k.What] {
					fmt.Printf("KNOWN-FINDING: property=%s %s [%s]\n", k.Property, k.What, o.Name)
					knownHit[k.What] = true
				}
				total-- // not counted
				continue
			}
			if o.Verdict == "SOLVER-ERROR" {
				fmt.Printf("BROKEN-CHECK solver rejected the VC of %s: %s\n", o.Name, strings.SplitN(o.Output, "\n", 2)[0])
				broken = true
				total--
			} else if o.Verdict == "REFUTED" {
				violations = append(violations, o)
			} else {
				undecided = append(undecided, o)
			}
		}
	}
	aborted := 0
	for _, r := range results {
		if r.Abort != "" {
			aborted++
			fmt.Printf("UNDECIDED function=%s reason=outside-subset-or-stale-contract: %s\n", r.Name, r.Abort)
		}
		if *verbose {
			fmt.Printf("func %s: %d obligations, %d paths\n", r.Name, len(r.Obls), r.Paths)
			for _, n := range r.Notes {
				fmt.Printf("   note: %s\n", n)
			}
		}
	}
	if *slow > 0 {
		srt := append([]*Obligation{}, all...)
		sort.Slice(srt, func(i, j int) bool { return srt[i].Time > srt[j].Time })
		for i := 0; i < *slow && i < len(srt); i++ {
			fmt.Printf("  SLOW %.2fs %s %s (%s)\n", srt[i].Time, srt[i].Verdict, srt[i].Name, srt[i].Solver)
		}
	}
	if *verbose {
		for _, o := range all {
			if o.Verdict != "DISCHARGED" {
				fmt.Printf("  %-12s %s  [%s] %s  (%s %.2fs)\n", o.Verdict, o.Name, o.Pos, o.Text, o.Solver, o.Time)
			}
		}
	}
	// replay files + VIOLATION lines. An obligation that is claimed (discharged on the unchanged tree) and is
	// now refuted or no longer discharged is reported; the solver gives no replayable input for quantified VCs.
	pid := label
	exit := 0
	report := append(append([]*Obligation{}, violations...), undecided...)
	// Replay: for functions that have an executable form of their contract (replay/harness.json), look for a concrete
	// failing input on the real code of the tree under check (in-package test injected with -overlay; nothing is written
	// to the repository). Only run when something is reported, so the unchanged tree pays nothing.
	os.RemoveAll(filepath.Join(*replayDir, pid)) // replay files of earlier runs of this check are stale
	found := replaySearch(*repo, *seed, report)
	for _, o := range report {
		rp := filepath.Join(*replayDir, pid, mangle(o.Name)+".json")
		os.MkdirAll(filepath.Dir(rp), 0o755)
		rep := map[string]any{
			"property": pid, "obligation": o.Name, "kind": o.Kind, "function": o.Func, "clause": o.Text, "position": o.Pos,
			"verdict": o.Verdict, "solver": o.Solver, "solver_output": o.Output, "failing_input": nil,
			"note": "no-failing-input-found: the obligation is generated from the current source of the function; the solver output (model if any) is attached",
		}
		if o.fv != nil || o.Raw != "" {
			rep["smt"] = em.Script(o)
		}
		suffix := " no-failing-input-found"
		if fi, ok := found[o.Func]; ok {
			rep["failing_input"] = fi
			rep["note"] = "a concrete input on which the real function violates its contract was found by the replay harness (executable form of the contract, hand-translated from the ensures clauses); re-run it with the command in failing_input.replay_cmd"
			suffix = fmt.Sprintf(" failing-input=%q violated=%q", fi["input"], fi["clause"])
		}
		data, _ := json.MarshalIndent(rep, "", " ")
		os.WriteFile(rp, data, 0o644)
		fmt.Printf("VIOLATION property=%s replay=%s obligation=%s verdict=%s clause=%q%s\n", pid, rp, o.Name, o.Verdict, o.Text, suffix)
		exit = 1
	}
	if broken {
		exit = 2
	}
	if nfun == 0 {
		fmt.Printf("govc: no function under contract for property %s\n", pid)
		exit = 2
	}
	wall := time.Since(t0).Seconds()
	fmt.Printf("govc: property=%s functions=%d obligations=%d discharged=%d refuted=%d undecided=%d covers=%d aborted=%d load=%.1fs solver=%.1fs wall=%.1fs\n",
		pid, nfun, total, discharged, len(violations), len(undecided), covers, aborted, loadS, solverTime, wall)
	if *evidence != "" {
		writeEvidence(*evidence, pid, *tier, *seed, results, all, total, discharged, covers, aborted, bySolver, solverTime, wall, len(report), flag.Args())
	}
	os.Exit(exit)
}

func writeEvidence(path, pid, tier string, seed int, results []*FuncResult, all []*Obligation, total, discharged, covers, aborted int, bySolver map[string]int, solverTime, wall float64, nviol int, extra []string) {
	var funcs []map[string]any
	trusted := map[string]bool{}
	notes := map[string]bool{}
	for _, r := range results {
		f := map[string]any{"function": r.Name, "file": filepath.Base(r.Contract.Pkg.Fset.Position(r.Contract.Decl.Pos()).Filename), "source_sha256_8": r.Contract.SrcHash,
			"obligations": len(r.Obls), "paths": r.Paths, "verified_callee_contracts": r.Callees, "assumed_contracts": r.Assumed}
		if r.Abort != "" {
			f["aborted"] = r.Abort
		}
		if len(r.Contract.Requires) > 0 {
			// preconditions are obligations at verified call sites and assumptions about every other caller
			var reqs []string
			for _, c := range r.Contract.Requires {
				reqs = append(reqs, c.Text)
			}
			f["requires"] = reqs
		}
		if len(r.Notes) > 0 {
			f["abstractions"] = r.Notes
		}
		funcs = append(funcs, f)
		for _, a := range r.Assumed {
			trusted["assumed contract: "+a] = true
		}
		for _, n := range r.Notes {
			notes[n] = true
		}
		for _, n := range r.Contract.Notes {
			notes["contract note ("+r.Name+"): "+n] = true
		}
	}
	var tb []string
	for t := range trusted {
		tb = append(tb, t)
	}
	sort.Strings(tb)
	tb = append(tb, "math/big arithmetic is exact (modelled as SMT Int); big.Int.Div is Euclidean",
		"SMT solvers z3 4.8.12 / z3 5.1.0 / cvc5 1.0.3 are sound",
		"govc's translation of the Go subset (value semantics for slices/maps with path aliases; see DESIGN.md §2)")
	var samples []any
	for _, o := range all {
		if len(samples) >= 6 {
			break
		}
		if o.Kind == "post" || o.Kind == "inv-preserved" {
			samples = append(samples, map[string]any{"obligation": o.Name, "clause": o.Text, "verdict": o.Verdict, "solver": o.Solver, "time_s": o.Time, "smt_bytes": o.Size})
		}
	}
	if len(samples) == 0 && len(all) > 0 {
		o := all[0]
		samples = append(samples, map[string]any{"obligation": o.Name, "clause": o.Text, "verdict": o.Verdict})
	}
	assumptions := []string{}
	for n := range notes {
		assumptions = append(assumptions, n)
	}
	sort.Strings(assumptions)
	nond := []any{}
	for _, o := range all {
		if o.Verdict != "DISCHARGED" {
			nond = append(nond, map[string]any{"obligation": o.Name, "verdict": o.Verdict, "clause": o.Text})
		}
	}
	ev := map[string]any{
		"property_id": pid, "tier": tier, "seed": seed, "level": "proof", "wall_s": wall, "violations": nviol,
		"coverage": map[string]any{
			"obligations": total, "discharged": discharged,
			"checker_cmd":  "govc -prop " + pid + " -tier " + tier + " (WP/symbolic execution over go/ast+go/types of /repo's working tree; z3-new, z3, cvc5 raced per obligation)",
			"trusted_base": tb, "functions_under_contract": funcs, "vacuity_covers_checked": covers, "functions_outside_subset": aborted,
			"discharged_by_solver": bySolver, "solver_time_s": solverTime, "samples": samples, "not_discharged": nond,
			"integers": "Go integers are mathematical Int; conversions that narrow and unsigned subtraction carry range obligations; + and * on int are not checked for 64-bit overflow unless the contract sets `opt overflow on`",
		},
		"assumptions": assumptions,
	}
	data, _ := json.MarshalIndent(ev, "", " ")
	os.MkdirAll(filepath.Dir(path), 0o755)
	os.WriteFile(path, data, 0o644)
}


// splitGoal returns the top-level conjuncts of goal: (and ..) flattened, an implication distributes over its consequent.
func splitGoal(goal string) []string {
	root := parseSexp(goal)
	if root == nil {
		return nil
	}
	var conj func(s *sexp) []*sexp
	conj = func(s *sexp) []*sexp {
		if s.list != nil && len(s.list) > 1 && s.list[0].list == nil && s.list[0].atom == "and" {
			var out []*sexp
			for _, c := range s.list[1:] {
				out = append(out, conj(c)...)
			}
			return out
		}
		return []*sexp{s}
	}
	var split func(s *sexp) []string
	split = func(s *sexp) []string {
		if s.list != nil && len(s.list) == 3 && s.list[0].list == nil && s.list[0].atom == "=>" {
			var out []string
			for _, c := range split(s.list[2]) {
				out = append(out, "(=> "+s.list[1].String()+" "+c+")")
			}
			return out
		}
		var out []string
		for _, c := range conj(s) {
			if c.list != nil && len(c.list) == 3 && c.list[0].list == nil && c.list[0].atom == "=>" {
				out = append(out, split(c)...)
			} else {
				out = append(out, c.String())
			}
		}
		return out
	}
	return split(root)
}


// replaySearch runs the replay harness of every reported function that has one and returns, per function, the first
// failing input found: {"input", "clause", "harness", "replay_cmd"}.
func replaySearch(repo string, seed int, report []*Obligation) map[string]map[string]any {
	out := map[string]map[string]any{}
	if len(report) == 0 {
		return out
	}
	var table map[string]struct{ Pkg, File, Run string }
	data, err := os.ReadFile("/verif/replay/harness.json")
	if err != nil || json.Unmarshal(data, &table) != nil {
		return out
	}
	done := map[string]bool{}
	for _, o := range report {
		h, ok := table[o.Func]
		if !ok || done[o.Func] {
			continue
		}
		done[o.Func] = true
		ov, _ := os.CreateTemp("", "govc-overlay-*.json")
		target := filepath.Join(repo, h.Pkg, "zz_replay_verif_test.go")
		fmt.Fprintf(ov, `{"Replace": {%q: %q}}`, target, filepath.Join("/verif/replay", h.File))
		ov.Close()
		cmd := exec.Command("go", "test", "-overlay", ov.Name(), "-vet=off", "-count=1", "-timeout", "120s", "-run", h.Run, "./"+h.Pkg+"/")
		cmd.Dir = repo
		cmd.Env = append(os.Environ(), fmt.Sprintf("VERIF_SEED=%d", seed))
		res, _ := cmd.CombinedOutput()
		os.Remove(ov.Name())
		for _, line := range strings.Split(string(res), "\n") {
			if strings.HasPrefix(line, "REPLAY-FAIL ") {
				rest := strings.TrimPrefix(line, "REPLAY-FAIL ")
				parts := strings.SplitN(rest, " :: ", 2)
				fnAndInput := strings.SplitN(parts[0], " ", 2)
				if len(parts) == 2 && len(fnAndInput) == 2 {
					out[o.Func] = map[string]any{"input": fnAndInput[1], "clause": parts[1], "harness": "/verif/replay/" + h.File,
						"replay_cmd": fmt.Sprintf("cd %s && VERIF_SEED=%d go test -overlay <{%q: %q}> -vet=off -count=1 -run '%s' ./%s/", repo, seed, target, "/verif/replay/"+h.File, h.Run, h.Pkg)}
				}
				break
			}
		}
	}
	return out
}
