package main

// Evaluation of contract expressions to typed SMT terms; spec functions (folds, defines, ghosts).

import (
	"fmt"
	"go/constant"
	"go/types"
	"strings"

	"golang.org/x/tools/go/packages"
)

type Term struct {
	S    string
	Sort *Sort
}

func T(s string, so *Sort) Term { return Term{s, so} }
func tInt(i int64) Term {
	if i < 0 {
		return Term{fmt.Sprintf("(- %d)", -i), SInt}
	}
	return Term{fmt.Sprintf("%d", i), SInt}
}
func tBool(b bool) Term {
	if b {
		return Term{"true", SBool}
	}
	return Term{"false", SBool}
}
func sx(op string, args ...string) string { return "(" + op + " " + strings.Join(args, " ") + ")" }
func tNot(a Term) Term {
	if a.S == "true" {
		return tBool(false)
	}
	if a.S == "false" {
		return tBool(true)
	}
	return Term{sx("not", a.S), SBool}
}
func tAnd(ts ...Term) Term {
	var ss []string
	for _, t := range ts {
		if t.S == "true" {
			continue
		}
		if t.S == "false" {
			return tBool(false)
		}
		ss = append(ss, t.S)
	}
	if len(ss) == 0 {
		return tBool(true)
	}
	if len(ss) == 1 {
		return Term{ss[0], SBool}
	}
	return Term{sx("and", ss...), SBool}
}
func tOr(ts ...Term) Term {
	var ss []string
	for _, t := range ts {
		if t.S == "false" {
			continue
		}
		if t.S == "true" {
			return tBool(true)
		}
		ss = append(ss, t.S)
	}
	if len(ss) == 0 {
		return tBool(false)
	}
	if len(ss) == 1 {
		return Term{ss[0], SBool}
	}
	return Term{sx("or", ss...), SBool}
}
func tImp(a, b Term) Term {
	if a.S == "true" {
		return b
	}
	if a.S == "false" || b.S == "true" {
		return tBool(true)
	}
	return Term{sx("=>", a.S, b.S), SBool}
}
func tEq(a, b Term) Term { return Term{sx("=", a.S, b.S), SBool} }
func tIte(c, a, b Term) Term {
	if c.S == "true" {
		return a
	}
	if c.S == "false" {
		return b
	}
	return Term{sx("ite", c.S, a.S, b.S), a.Sort}
}

// ---- sort-directed accessors -------------------------------------------------------------

func slArr(s Term) Term  { return Term{sx("arr_"+s.Sort.Name, s.S), nil} }
func slLen(s Term) Term  { return Term{sx("len_"+s.Sort.Name, s.S), SInt} }
func slNil(s Term) Term  { return Term{sx("isnil_"+s.Sort.Name, s.S), SBool} }
func slAt(s, i Term) Term { return Term{sx("select", slArr(s).S, i.S), s.Sort.Elem} }
func mkSlice(so *Sort, arr string, ln string, isnil string) Term {
	return Term{sx(so.Mk, arr, ln, isnil), so}
}
func mpDom(m Term) string { return sx("dom_"+m.Sort.Name, m.S) }
func mpVal(m Term) string { return sx("val_"+m.Sort.Name, m.S) }
func mpNil(m Term) Term   { return Term{sx("mnil_"+m.Sort.Name, m.S), SBool} }
func mpHas(m, k Term) Term { return Term{sx("select", mpDom(m), k.S), SBool} }
// mpGet: map read. Every map value of the program satisfies "val[k] is the zero value outside the key set"
// (established at creation, kept by stores and deletes, assumed for symbolic maps: mapWf), so a read is a plain select.
func (ss *Sorts) mpGet(m, k Term) Term {
	return Term{sx("select", mpVal(m), k.S), m.Sort.Elem}
}

// mapWf: well-formedness facts of a symbolic map value (zero outside the key set; a nil map has no keys).
func (ss *Sorts) mapWf(m Term) []string {
	kn := m.Sort.Key.Name
	return []string{
		"(forall ((wk " + kn + ")) (! (=> (not (select " + mpDom(m) + " wk)) (= (select " + mpVal(m) + " wk) " + ss.Zero(m.Sort.Elem) + ")) :pattern ((select " + mpVal(m) + " wk))))",
		"(=> " + mpNil(m).S + " (forall ((wk " + kn + ")) (! (not (select " + mpDom(m) + " wk)) :pattern ((select " + mpDom(m) + " wk)))))",
	}
}
func mpRaw(m, k Term) Term { return Term{sx("select", mpVal(m), k.S), m.Sort.Elem} }
func mkMap(so *Sort, dom, val, isnil string) Term { return Term{sx(so.Mk, dom, val, isnil), so} }
func ptrNil(so *Sort) Term { return Term{"pnil_" + so.Name, so} }
func ptrDrf(p Term) Term   { return Term{sx("pdrf_"+p.Sort.Name, p.S), p.Sort.Elem} }
func ptrMk(so *Sort, v Term) Term { return Term{sx(so.Mk, v.S), so} }
func bigVal(b Term) Term   { return Term{sx("bval", b.S), SInt} }
func bigMk(v Term) Term    { return Term{sx("bint", v.S), SBig} }

func (ss *Sorts) isNil(t Term) (Term, error) {
	switch t.Sort.Kind {
	case KBig:
		return Term{sx("=", t.S, "bnil"), SBool}, nil
	case KPtr:
		return Term{sx("=", t.S, "pnil_"+t.Sort.Name), SBool}, nil
	case KErr:
		return Term{sx("=", t.S, "err_nil"), SBool}, nil
	case KFn:
		return Term{sx("=", t.S, "fn_nil"), SBool}, nil
	case KOpaque:
		return Term{sx("=", t.S, "nil_"+t.Sort.Name), SBool}, nil
	case KSlice:
		return slNil(t), nil
	case KMap:
		return mpNil(t), nil
	case KSum:
		return Term{sx("=", t.S, t.Sort.NilCtor()), SBool}, nil
	}
	return Term{}, fmt.Errorf("nil comparison on sort %s", t.Sort.Name)
}

// ---- spec function registry --------------------------------------------------------------

type SpecFn struct {
	Name   string
	Kind   string // sumfold, define, declare
	Params []*Sort
	PNames []string
	Ret    *Sort
	Decl   string // SMT text
	Def    string // definitional axiom of an opaque function (emitted only where revealed)
	SMT    string // SMT function name
	Lemmas []LemmaVC
}

type LemmaVC struct {
	Name string
	Body string // assertions then goal negated are built by caller: Body is full script after decls
}

type GhostVar struct {
	Name string
	Sort *Sort
}

type SpecReg struct {
	prog   *Program
	ss     *Sorts
	fns    map[string]*SpecFn
	order  []*SpecFn
	ghosts map[string]*GhostVar
	gorder []string
	axioms []string
	folds  map[string][]*SpecFn // by array elem sort name
	lemmaAxioms []string
	lemmaVCs    []LemmaVC
	pins        []Pin
}

// Pin: a checked equation between source constants (e.g. the regular expression an uninterpreted predicate stands for).
type Pin struct {
	Text  string
	Props []string
	Goal  string
	Line  string
}

func NewSpecReg(p *Program, ss *Sorts) *SpecReg {
	return &SpecReg{prog: p, ss: ss, fns: map[string]*SpecFn{}, ghosts: map[string]*GhostVar{}, folds: map[string][]*SpecFn{}}
}

func (r *SpecReg) Build() {
	// ghosts first, then declarations in order
	for _, sd := range r.prog.Specs {
		if sd.Kind == "ghost" {
			so, _, err := r.prog.ResolveTypeX(r.ss, sd.Pkg, sd.Ret)
			if err != nil {
				r.prog.errf(sd.Line, "%v", err)
				continue
			}
			r.ghosts[sd.Name] = &GhostVar{sd.Name, so}
			r.gorder = append(r.gorder, sd.Name)
		}
	}
	for _, sd := range r.prog.Specs {
		switch sd.Kind {
		case "sumfold", "nnfold":
			r.buildFold(sd)
		case "define", "declare", "function", "opaque":
			r.buildDefine(sd)
		}
	}
	for _, sd := range r.prog.Specs {
		if sd.Kind == "lemma" {
			r.buildLemma(sd)
		}
		if sd.Kind == "pin" {
			env := &SpecEnv{reg: r, pk: sd.Pkg, bound: map[string]Term{}}
			t, err := env.EvalBool(sd.Body)
			if err != nil {
				r.prog.errf(sd.Line, "pin: %v", err)
				continue
			}
			r.pins = append(r.pins, Pin{Text: sd.Name, Props: sd.Props, Goal: t.S, Line: sd.Line})
		}
	}
	for _, sd := range r.prog.Specs {
		if sd.Kind == "axiom" {
			env := &SpecEnv{reg: r, pk: sd.Pkg, bound: map[string]Term{}}
			t, err := env.Eval(sd.Body)
			if err != nil {
				r.prog.errf(sd.Line, "axiom: %v", err)
				continue
			}
			r.axioms = append(r.axioms, fmt.Sprintf("(assert %s) ; axiom %s", t.S, sd.Line))
		}
	}
}

func (r *SpecReg) buildFold(sd *SpecDecl) {
	if len(sd.Params) < 1 {
		r.prog.errf(sd.Line, "sumfold needs a slice parameter")
		return
	}
	var sorts []*Sort
	for _, q := range sd.Params {
		so, _, err := r.prog.ResolveTypeX(r.ss, sd.Pkg, q.Type)
		if err != nil {
			r.prog.errf(sd.Line, "%v", err)
			return
		}
		sorts = append(sorts, so)
	}
	sl := sorts[0]
	if sl.Kind != KSlice {
		r.prog.errf(sd.Line, "sumfold first parameter must be a slice")
		return
	}
	name := sd.Name
	smt := "F_" + name
	arrSort := fmt.Sprintf("(Array Int %s)", sl.Elem.Name)
	// element expression
	env := &SpecEnv{reg: r, pk: sd.Pkg, bound: map[string]Term{"e": {"e", sl.Elem}}}
	var extraDecl, extraNames []string
	for i := 1; i < len(sd.Params); i++ {
		env.bound[sd.Params[i].Name] = Term{"x" + sd.Params[i].Name, sorts[i]}
		extraDecl = append(extraDecl, fmt.Sprintf("(x%s %s)", sd.Params[i].Name, sorts[i].Name))
		extraNames = append(extraNames, "x"+sd.Params[i].Name)
	}
	g, err := env.Eval(sd.Body)
	if err != nil {
		r.prog.errf(sd.Line, "sumfold %s: %v", name, err)
		return
	}
	ret := SInt
	if sd.Ret != nil {
		rs, _, err := r.prog.ResolveTypeX(r.ss, sd.Pkg, sd.Ret)
		if err != nil {
			r.prog.errf(sd.Line, "%v", err)
			return
		}
		ret = rs
	}
	if g.Sort != ret || (ret != SInt && ret != SReal) {
		r.prog.errf(sd.Line, "sumfold %s: element expression has sort %s, fold returns %s", name, g.Sort.Name, ret.Name)
		return
	}
	zero := "0"
	if ret == SReal {
		zero = "0.0"
	}
	var ps []string
	ps = append(ps, arrSort, "Int")
	for i := 1; i < len(sorts); i++ {
		ps = append(ps, sorts[i].Name)
	}
	ex := strings.Join(extraNames, " ")
	exd := strings.Join(extraDecl, " ")
	if ex != "" {
		ex = " " + ex
		exd = " " + exd
	}
	abstractG := false
	gname := "G_" + name
	gOf := func(elem string) string {
		if abstractG {
			return "(" + gname + " " + elem + ex + ")"
		}
		return "(let ((e " + elem + ")) " + g.S + ")"
	}
	gAt := func(arr, idx string) string { return gOf("(select " + arr + " " + idx + ")") }
	mkBase := func() string {
		var b strings.Builder
		if abstractG {
			// in the lemma proofs the element term is an arbitrary function: the lemmas hold for every sum fold
			var gps []string
			gps = append(gps, sl.Elem.Name)
			for i := 1; i < len(sorts); i++ {
				gps = append(gps, sorts[i].Name)
			}
			fmt.Fprintf(&b, "(declare-fun %s (%s) %s)\n", gname, strings.Join(gps, " "), ret.Name)
		}
		fmt.Fprintf(&b, "(declare-fun %s (%s) %s)\n", smt, strings.Join(ps, " "), ret.Name)
		fmt.Fprintf(&b, "(assert (forall ((a %s)%s) (! (= (%s a 0%s) %s) :pattern ((%s a 0%s)))))\n", arrSort, exd, smt, ex, zero, smt, ex)
		fmt.Fprintf(&b, "(assert (forall ((a %s) (k Int)%s) (! (=> (> k 0) (= (%s a k%s) (+ (%s a (- k 1)%s) %s))) :pattern ((%s a k%s)))))\n",
			arrSort, exd, smt, ex, smt, ex, gAt("a", "(- k 1)"), smt, ex)
		return b.String()
	}
	// store-frame lemma (proved by induction as a lemma obligation)
	frame := fmt.Sprintf("(assert (forall ((a %s) (i Int) (v %s) (k Int)%s) (! (=> (and (<= 0 k) (<= k i)) (= (%s (store a i v) k%s) (%s a k%s))) :pattern ((%s (store a i v) k%s)))))\n",
		arrSort, sl.Elem.Name, exd, smt, ex, smt, ex, smt, ex)
	fn := &SpecFn{Name: name, Kind: "sumfold", Params: sorts, Ret: ret, SMT: smt}
	for _, q := range sd.Params {
		fn.PNames = append(fn.PNames, q.Name)
	}
	base := mkBase()
	update := fmt.Sprintf("(assert (forall ((a %s) (i Int) (v %s) (k Int)%s) (! (=> (and (<= 0 i) (< i k)) (= (%s (store a i v) k%s) (+ (- (%s a k%s) %s) %s))) :pattern ((%s (store a i v) k%s)))))\n",
		arrSort, sl.Elem.Name, exd, smt, ex, smt, ex, gAt("a", "i"), gOf("v"), smt, ex)
	fn.Decl = base + frame + update
	concreteBase := base
	abstractG = true
	base = mkBase()
	{
		var u strings.Builder
		u.WriteString(base + frame)
		fmt.Fprintf(&u, "(declare-const a %s)\n(declare-const i Int)\n(declare-const v %s)\n(declare-const k Int)\n", arrSort, sl.Elem.Name)
		for i := 1; i < len(sorts); i++ {
			fmt.Fprintf(&u, "(declare-const x%s %s)\n", sd.Params[i].Name, sorts[i].Name)
		}
		rhs := func(kk string) string {
			return fmt.Sprintf("(+ (- (%s a %s%s) %s) %s)", smt, kk, ex, gAt("a", "i"), gOf("v"))
		}
		fmt.Fprintf(&u, "(assert (and (<= 0 i) (< i k)))\n(assert (=> (< i (- k 1)) (= (%s (store a i v) (- k 1)%s) %s)))\n", smt, ex, rhs("(- k 1)"))
		fmt.Fprintf(&u, "(assert (not (= (%s (store a i v) k%s) %s)))\n", smt, ex, rhs("k"))
		fn.Lemmas = append(fn.Lemmas, LemmaVC{Name: "lemma:" + name + ":store-update-step", Body: u.String()})
	}
	// lemma VC: induction step for the store-frame lemma.
	var l strings.Builder
	l.WriteString(base)
	fmt.Fprintf(&l, "(declare-const a %s)\n(declare-const i Int)\n(declare-const v %s)\n(declare-const k Int)\n", arrSort, sl.Elem.Name)
	for i := 1; i < len(sorts); i++ {
		fmt.Fprintf(&l, "(declare-const x%s %s)\n", sd.Params[i].Name, sorts[i].Name)
	}
	fmt.Fprintf(&l, "(assert (and (<= 0 k) (<= k i)))\n(assert (=> (and (> k 0) (<= (- k 1) i)) (= (%s (store a i v) (- k 1)%s) (%s a (- k 1)%s))))\n", smt, ex, smt, ex)
	fmt.Fprintf(&l, "(assert (not (= (%s (store a i v) k%s) (%s a k%s))))\n", smt, ex, smt, ex)
	fn.Lemmas = append(fn.Lemmas, LemmaVC{Name: "lemma:" + name + ":store-frame-step", Body: l.String()})
	// extensionality lemma step (justifies the facts emitted at append(s, t...) / copy / shifted slices)
	var e2 strings.Builder
	e2.WriteString(base)
	fmt.Fprintf(&e2, "(declare-const a %s)\n(declare-const b %s)\n(declare-const k Int)\n(declare-const K Int)\n", arrSort, arrSort)
	for i := 1; i < len(sorts); i++ {
		fmt.Fprintf(&e2, "(declare-const x%s %s)\n", sd.Params[i].Name, sorts[i].Name)
	}
	fmt.Fprintf(&e2, "(assert (forall ((j Int)) (=> (and (<= 0 j) (< j K)) (= (select a j) (select b j)))))\n")
	fmt.Fprintf(&e2, "(assert (and (> k 0) (<= k K)))\n(assert (= (%s a (- k 1)%s) (%s b (- k 1)%s)))\n", smt, ex, smt, ex)
	fmt.Fprintf(&e2, "(assert (not (= (%s a k%s) (%s b k%s))))\n", smt, ex, smt, ex)
	fn.Lemmas = append(fn.Lemmas, LemmaVC{Name: "lemma:" + name + ":ext-step", Body: e2.String()})
	// concatenation lemma step: c[n+j] = b[j] for j<m, c[j] = a[j] for j<n  ==> F(c,n+j) = F(a,n)+F(b,j)
	var e3 strings.Builder
	e3.WriteString(base)
	fmt.Fprintf(&e3, "(declare-const a %s)\n(declare-const b %s)\n(declare-const c %s)\n(declare-const n Int)\n(declare-const m Int)\n(declare-const j Int)\n", arrSort, arrSort, arrSort)
	for i := 1; i < len(sorts); i++ {
		fmt.Fprintf(&e3, "(declare-const x%s %s)\n", sd.Params[i].Name, sorts[i].Name)
	}
	fmt.Fprintf(&e3, "(assert (>= n 0))\n(assert (forall ((q Int)) (=> (and (<= 0 q) (< q m)) (= (select c (+ n q)) (select b q)))))\n")
	fmt.Fprintf(&e3, "(assert (and (> j 0) (<= j m)))\n(assert (= (%s c (+ n (- j 1))%s) (+ (%s c n%s) (%s b (- j 1)%s))))\n", smt, ex, smt, ex, smt, ex)
	fmt.Fprintf(&e3, "(assert (not (= (%s c (+ n j)%s) (+ (%s c n%s) (%s b j%s)))))\n", smt, ex, smt, ex, smt, ex)
	fn.Lemmas = append(fn.Lemmas, LemmaVC{Name: "lemma:" + name + ":concat-step", Body: e3.String()})
	if sd.Kind == "nnfold" {
		// non-negative fold: F(a,k) >= 0 for k >= 0, proved by induction (element terms must be >= 0)
		fn.Decl += fmt.Sprintf("(assert (forall ((a %s) (k Int)%s) (! (=> (<= 0 k) (>= (%s a k%s) %s)) :pattern ((%s a k%s)))))\n", arrSort, exd, smt, ex, zero, smt, ex)
		var nn strings.Builder
		nn.WriteString(concreteBase)
		fmt.Fprintf(&nn, "(declare-const a %s)\n(declare-const k Int)\n", arrSort)
		for i := 1; i < len(sorts); i++ {
			fmt.Fprintf(&nn, "(declare-const x%s %s)\n", sd.Params[i].Name, sorts[i].Name)
		}
		fmt.Fprintf(&nn, "(assert (> k 0))\n(assert (>= (%s a (- k 1)%s) %s))\n(assert (not (>= (%s a k%s) %s)))\n", smt, ex, zero, smt, ex, zero)
		fn.Lemmas = append(fn.Lemmas, LemmaVC{Name: "lemma:" + name + ":nonneg-step", Body: nn.String()})
	}
	r.fns[name] = fn
	r.order = append(r.order, fn)
	r.folds[sl.Elem.Name] = append(r.folds[sl.Elem.Name], fn)
}

// buildLemma: a universally quantified fact that is (a) proved once as its own obligation(s) — directly, or by
// induction on an integer parameter — and (b) made available to every VC as an axiom with the given triggers.
func (r *SpecReg) buildLemma(sd *SpecDecl) {
	env := &SpecEnv{reg: r, pk: sd.Pkg, bound: map[string]Term{}}
	var decl, consts []string
	for _, q := range sd.Params {
		so, _, err := r.prog.ResolveTypeX(r.ss, sd.Pkg, q.Type)
		if err != nil {
			r.prog.errf(sd.Line, "%v", err)
			return
		}
		env.bound[q.Name] = Term{"l_" + q.Name, so}
		decl = append(decl, fmt.Sprintf("(l_%s %s)", q.Name, so.Name))
		consts = append(consts, fmt.Sprintf("(declare-const l_%s %s)", q.Name, so.Name))
	}
	body := sd.Body
	var trig string
	if body.Op == "trigbody" {
		return
	}
	// optional leading trigger groups are written as:  {t1} {t2} body  -- reuse the quantifier syntax by wrapping
	t, err := env.EvalBool(body)
	if err != nil {
		r.prog.errf(sd.Line, "lemma %s: %v", sd.Name, err)
		return
	}
	for _, tx := range sd.Trig {
		var ts []string
		for _, a := range tx.Args {
			tt, err := env.Eval(a)
			if err != nil {
				r.prog.errf(sd.Line, "lemma %s trigger: %v", sd.Name, err)
				return
			}
			ts = append(ts, tt.S)
		}
		trig += " :pattern (" + strings.Join(ts, " ") + ")"
	}
	ax := fmt.Sprintf("(assert (forall (%s) (! %s%s))) ; lemma %s", strings.Join(decl, " "), t.S, trig, sd.Name)
	if trig == "" {
		ax = fmt.Sprintf("(assert (forall (%s) %s)) ; lemma %s", strings.Join(decl, " "), t.S, sd.Name)
	}
	r.lemmaAxioms = append(r.lemmaAxioms, ax)
	// proof obligations (earlier lemmas may be used; this one and later ones may not)
	prior := strings.Join(r.lemmaAxioms[:len(r.lemmaAxioms)-1], "\n")
	if prior != "" {
		prior += "\n"
	}
	pre := prior + strings.Join(consts, "\n") + "\n"
	if sd.Induct == "" {
		r.lemmaVCs = append(r.lemmaVCs, LemmaVC{Name: "lemma:" + sd.Name, Body: pre + "(assert (not " + t.S + "))\n"})
		return
	}
	iv := "l_" + sd.Induct
	// induction hypothesis: the body at k-1 (k is replaced textually by a fresh constant equal to k-1)
	env2 := &SpecEnv{reg: r, pk: sd.Pkg, bound: map[string]Term{}}
	for k, v := range env.bound {
		env2.bound[k] = v
	}
	env2.bound[sd.Induct] = Term{"(- " + iv + " 1)", SInt}
	ih, err := env2.EvalBool(body)
	if err != nil {
		r.prog.errf(sd.Line, "lemma %s: %v", sd.Name, err)
		return
	}
	r.lemmaVCs = append(r.lemmaVCs, LemmaVC{Name: "lemma:" + sd.Name + ":base", Body: pre + "(assert (<= " + iv + " 0))\n(assert (not " + t.S + "))\n"})
	r.lemmaVCs = append(r.lemmaVCs, LemmaVC{Name: "lemma:" + sd.Name + ":step", Body: pre + "(assert (> " + iv + " 0))\n(assert " + ih.S + ")\n(assert (not " + t.S + "))\n"})
}

func (r *SpecReg) buildDefine(sd *SpecDecl) {
	var sorts []*Sort
	env := &SpecEnv{reg: r, pk: sd.Pkg, bound: map[string]Term{}}
	var pd []string
	fn := &SpecFn{Name: sd.Name, Kind: sd.Kind, SMT: "D_" + sd.Name}
	for _, q := range sd.Params {
		so, _, err := r.prog.ResolveTypeX(r.ss, sd.Pkg, q.Type)
		if err != nil {
			r.prog.errf(sd.Line, "%v", err)
			return
		}
		sorts = append(sorts, so)
		env.bound[q.Name] = Term{"p_" + q.Name, so}
		pd = append(pd, fmt.Sprintf("(p_%s %s)", q.Name, so.Name))
		fn.PNames = append(fn.PNames, q.Name)
	}
	fn.Params = sorts
	ret := SBool
	if sd.Ret != nil {
		so, _, err := r.prog.ResolveTypeX(r.ss, sd.Pkg, sd.Ret)
		if err != nil {
			r.prog.errf(sd.Line, "%v", err)
			return
		}
		ret = so
	}
	fn.Ret = ret
	if (sd.Kind == "function" || sd.Kind == "opaque") && sd.Body != nil {
		var ps, ns []string
		for i, s := range sorts {
			ps = append(ps, s.Name)
			ns = append(ns, "p_"+sd.Params[i].Name)
		}
		body, err := env.Eval(sd.Body)
		if err != nil {
			r.prog.errf(sd.Line, "function %s: %v", sd.Name, err)
			return
		}
		if body.Sort != ret {
			r.prog.errf(sd.Line, "function %s: body has sort %s, declared %s", sd.Name, body.Sort.Name, ret.Name)
			return
		}
		app := "(" + fn.SMT + " " + strings.Join(ns, " ") + ")"
		fn.Decl = fmt.Sprintf("(declare-fun %s (%s) %s)\n", fn.SMT, strings.Join(ps, " "), ret.Name)
		def := fmt.Sprintf("(assert (forall (%s) (! (= %s %s) :pattern (%s))))\n", strings.Join(pd, " "), app, body.S, app)
		if sd.Kind == "opaque" {
			fn.Def = def // emitted only where revealed
			fn.Kind = "opaque"
		} else {
			fn.Decl += def
		}
	} else if sd.Kind == "declare" || sd.Body == nil {
		var ps []string
		for _, s := range sorts {
			ps = append(ps, s.Name)
		}
		fn.Kind = "declare"
		fn.Decl = fmt.Sprintf("(declare-fun %s (%s) %s)\n", fn.SMT, strings.Join(ps, " "), ret.Name)
	} else {
		// register before evaluating? (no recursion allowed)
		body, err := env.Eval(sd.Body)
		if err != nil {
			r.prog.errf(sd.Line, "define %s: %v", sd.Name, err)
			return
		}
		if body.Sort != ret {
			r.prog.errf(sd.Line, "define %s: body has sort %s, declared %s", sd.Name, body.Sort.Name, ret.Name)
			return
		}
		fn.Decl = fmt.Sprintf("(define-fun %s (%s) %s %s)\n", fn.SMT, strings.Join(pd, " "), ret.Name, body.S)
	}
	r.fns[sd.Name] = fn
	r.order = append(r.order, fn)
}

// ---- environment ---------------------------------------------------------------------

type SpecEnv struct {
	reg    *SpecReg
	typeArgs map[string]types.Type // type parameters of a generic callee bound at the call site
	pk     *packages.Package
	bound  map[string]Term
	lookup func(name string, old bool) (Term, bool)
	inOld  bool
}

func (e *SpecEnv) ss() *Sorts { return e.reg.ss }

// resolveType resolves a spec type; names of type parameters bound at a call site denote the type arguments.
func (e *SpecEnv) resolveType(t *TypeX) (*Sort, types.Type, error) {
	return e.reg.prog.resolveTypeXWith(e.ss(), e.pk, t, e.typeArgs)
}

func (e *SpecEnv) withBound(vs map[string]Term) *SpecEnv {
	n := *e
	n.bound = map[string]Term{}
	for k, v := range e.bound {
		n.bound[k] = v
	}
	for k, v := range vs {
		n.bound[k] = v
	}
	return &n
}

func (e *SpecEnv) EvalBool(x *SX) (Term, error) {
	t, err := e.Eval(x)
	if err != nil {
		return t, err
	}
	if t.Sort != SBool {
		return t, fmt.Errorf("expected a boolean, got %s in %s", t.Sort.Name, x)
	}
	return t, nil
}

func (e *SpecEnv) Eval(x *SX) (Term, error) {
	switch x.Op {
	case "int":
		return Term{x.Name, SInt}, nil
	case "bool":
		return Term{x.Name, SBool}, nil
	case "str":
		return Term{e.ss().StrConst(x.Name), SStr}, nil
	case "nil":
		return Term{}, fmt.Errorf("nil used without a typed operand")
	case "id":
		if t, ok := e.bound[x.Name]; ok {
			return t, nil
		}
		if e.lookup != nil {
			if t, ok := e.lookup(x.Name, e.inOld); ok {
				return t, nil
			}
		}
		// package-level constant
		if e.pk != nil {
			if c, ok := e.pk.Types.Scope().Lookup(x.Name).(*types.Const); ok {
				return constTerm(e.ss(), c)
			}
		}
		return Term{}, fmt.Errorf("unknown name %q", x.Name)
	case "old":
		n := *e
		n.inOld = true
		return n.Eval(x.Args[0])
	case "un":
		a, err := e.Eval(x.Args[0])
		if err != nil {
			return a, err
		}
		if x.Name == "!" {
			if a.Sort != SBool {
				return a, fmt.Errorf("! on non-bool in %s", x)
			}
			return tNot(a), nil
		}
		return Term{sx("-", a.S), a.Sort}, nil
	case "ite":
		c, err := e.EvalBool(x.Args[0])
		if err != nil {
			return c, err
		}
		a, err := e.Eval(x.Args[1])
		if err != nil {
			return a, err
		}
		b, err := e.Eval(x.Args[2])
		if err != nil {
			return b, err
		}
		if a.Sort != b.Sort {
			return a, fmt.Errorf("branches of ?: differ in sort: %s vs %s", a.Sort.Name, b.Sort.Name)
		}
		return tIte(c, a, b), nil
	case "bin":
		return e.evalBin(x)
	case "sel":
		// package-qualified constant?
		if id := x.Args[0]; id.Op == "id" {
			if _, isBound := e.bound[id.Name]; !isBound {
				known := false
				if e.lookup != nil {
					_, known = e.lookup(id.Name, e.inOld)
				}
				if !known && e.pk != nil {
					if tp := e.reg.prog.lookupPkgByName(e.pk, id.Name); tp != nil {
						if c, ok := tp.Scope().Lookup(x.Name).(*types.Const); ok {
							return constTerm(e.ss(), c)
						}
						if e.lookup != nil {
							if t, ok := e.lookup(id.Name+"."+x.Name, e.inOld); ok {
								return t, nil
							}
						}
						return Term{}, fmt.Errorf("unknown constant %s.%s", id.Name, x.Name)
					}
				}
			}
		}
		a, err := e.Eval(x.Args[0])
		if err != nil {
			return a, err
		}
		return e.field(a, x.Name)
	case "idx":
		a, err := e.Eval(x.Args[0])
		if err != nil {
			return a, err
		}
		i, err := e.Eval(x.Args[1])
		if err != nil {
			return i, err
		}
		a = autoDeref(a)
		switch a.Sort.Kind {
		case KSlice:
			return slAt(a, i), nil
		case KMap:
			if i.Sort != a.Sort.Key {
				return a, fmt.Errorf("map key sort mismatch in %s", x)
			}
			return e.ss().mpGet(a, i), nil
		case KArray:
			return Term{sx("select", a.S, i.S), a.Sort.Elem}, nil
		}
		return a, fmt.Errorf("cannot index sort %s in %s", a.Sort.Name, x)
	case "forall", "exists":
		vs := map[string]Term{}
		var decl []string
		for _, q := range x.Vars {
			so, _, err := e.resolveType(q.Type)
			if err != nil {
				return Term{}, err
			}
			vn := "q_" + q.Name
			vs[q.Name] = Term{vn, so}
			decl = append(decl, fmt.Sprintf("(%s %s)", vn, so.Name))
		}
		body, err := e.withBound(vs).EvalBool(x.Args[0])
		if err != nil {
			return body, err
		}
		if len(x.Args) > 1 {
			var ps string
			for _, grp := range x.Args[1:] {
				var ts []string
				for _, tx := range grp.Args {
					tt, err := e.withBound(vs).Eval(tx)
					if err != nil {
						return tt, err
					}
					ts = append(ts, tt.S)
				}
				ps += " :pattern (" + strings.Join(ts, " ") + ")"
			}
			return Term{fmt.Sprintf("(%s (%s) (! %s%s))", x.Op, strings.Join(decl, " "), body.S, ps), SBool}, nil
		}
		if x.Op == "forall" && len(x.Vars) == 1 {
			vn := "q_" + x.Vars[0].Name
			if trg := inferTriggers(body.S, vn, map[string]bool{vn: true}); len(trg) > 0 && len(trg) <= 4 {
				var ps string
				for _, t := range trg {
					ps += " :pattern (" + t + ")"
				}
				return Term{fmt.Sprintf("(forall (%s) (! %s%s))", strings.Join(decl, " "), body.S, ps), SBool}, nil
			}
		}
		return Term{fmt.Sprintf("(%s (%s) %s)", x.Op, strings.Join(decl, " "), body.S), SBool}, nil
	case "as", "is":
		a, err := e.Eval(x.Args[0])
		if err != nil {
			return a, err
		}
		if a.Sort.Kind == KOpaque {
			tso, gt, err := e.resolveType(x.Type)
			if err != nil {
				return a, err
			}
			_, un := e.ss().BoxFn(tso, a.Sort, gt)
			if x.Op == "as" {
				return Term{sx(un, a.S), tso}, nil
			}
			tname := mangle(tso.Name)
			if gt != nil {
				tname = shortTypeName(gt)
			}
			return Term{sx("=", sx(e.ss().DynTypeFn(a.Sort), a.S), e.ss().StrConst("type:"+tname)), SBool}, nil
		}
		if a.Sort.Kind != KSum {
			return a, fmt.Errorf("type test on non-interface sort %s", a.Sort.Name)
		}
		_, gt, err := e.resolveType(x.Type)
		if err != nil {
			return a, err
		}
		c := a.Sort.CtorFor(gt)
		if c == nil {
			return a, fmt.Errorf("%s is not a variant of %s", x.Type, a.Sort.Name)
		}
		if x.Op == "is" {
			return Term{"(" + c.Tester + " " + a.S + ")", SBool}, nil
		}
		return Term{sx(c.Acc, a.S), c.Payload}, nil
	case "call":
		return e.evalCall(x)
	}
	return Term{}, fmt.Errorf("unsupported spec expression %s", x)
}

func constTerm(ss *Sorts, c *types.Const) (Term, error) {
	so := ss.Of(c.Type())
	v := c.Val()
	switch so.Kind {
	case KInt:
		s := v.ExactString()
		if strings.HasPrefix(s, "-") {
			return Term{"(- " + s[1:] + ")", SInt}, nil
		}
		return Term{s, SInt}, nil
	case KStr:
		return Term{ss.StrConst(constant.StringVal(v)), SStr}, nil
	case KBool:
		return Term{v.ExactString(), SBool}, nil
	}
	return Term{}, fmt.Errorf("unsupported constant %s", c.Name())
}

func autoDeref(a Term) Term {
	for a.Sort.Kind == KPtr {
		a = ptrDrf(a)
	}
	return a
}

func (e *SpecEnv) derefRef(a Term) Term {
	if a.Sort.Kind == KOpaque {
		if tgt, _ := e.ss().RefTarget(a.Sort); tgt != nil {
			return Term{sx("deref_"+a.Sort.Name, a.S), tgt}
		}
	}
	return a
}

func (e *SpecEnv) field(a Term, name string) (Term, error) {
	a = autoDeref(e.derefRef(a))
	switch a.Sort.Kind {
	case KStruct, KRat:
		if f := a.Sort.FieldByName(name); f != nil {
			return Term{sx(f.Acc, a.S), f.Sort}, nil
		}
		// promoted through embedded struct
		for _, f := range a.Sort.Fields {
			if f.Sort.Kind == KStruct || f.Sort.Kind == KPtr {
				if t, err := e.field(Term{sx(f.Acc, a.S), f.Sort}, name); err == nil {
					return t, nil
				}
			}
		}
	}
	return a, fmt.Errorf("no field %s in sort %s", name, a.Sort.Name)
}

func (e *SpecEnv) evalBin(x *SX) (Term, error) {
	op := x.Name
	// nil comparisons
	if op == "==" || op == "!=" {
		var other *SX
		if x.Args[0].Op == "nil" {
			other = x.Args[1]
		} else if x.Args[1].Op == "nil" {
			other = x.Args[0]
		}
		if other != nil {
			a, err := e.Eval(other)
			if err != nil {
				return a, err
			}
			n, err := e.ss().isNil(a)
			if err != nil {
				return n, fmt.Errorf("%v in %s", err, x)
			}
			if op == "!=" {
				return tNot(n), nil
			}
			return n, nil
		}
	}
	a, err := e.Eval(x.Args[0])
	if err != nil {
		return a, err
	}
	b, err := e.Eval(x.Args[1])
	if err != nil {
		return b, err
	}
	needBool := func() error {
		if a.Sort != SBool || b.Sort != SBool {
			return fmt.Errorf("operator %s needs booleans in %s", op, x)
		}
		return nil
	}
	switch op {
	case "&&":
		if err := needBool(); err != nil {
			return a, err
		}
		return tAnd(a, b), nil
	case "||":
		if err := needBool(); err != nil {
			return a, err
		}
		return tOr(a, b), nil
	case "==>":
		if err := needBool(); err != nil {
			return a, err
		}
		return tImp(a, b), nil
	case "<==>":
		if err := needBool(); err != nil {
			return a, err
		}
		return tEq(a, b), nil
	case "==", "!=":
		if a.Sort != b.Sort {
			// Int/Real coercion
			if a.Sort == SInt && b.Sort == SReal {
				a = Term{sx("to_real", a.S), SReal}
			} else if a.Sort == SReal && b.Sort == SInt {
				b = Term{sx("to_real", b.S), SReal}
			} else {
				return a, fmt.Errorf("comparison of different sorts %s and %s in %s", a.Sort.Name, b.Sort.Name, x)
			}
		}
		if op == "==" {
			return tEq(a, b), nil
		}
		return tNot(tEq(a, b)), nil
	case "<", "<=", ">", ">=":
		if a.Sort == SStr && b.Sort == SStr {
			switch op {
			case "<":
				return Term{sx("str_lt", a.S, b.S), SBool}, nil
			case ">":
				return Term{sx("str_lt", b.S, a.S), SBool}, nil
			case "<=":
				return tNot(Term{sx("str_lt", b.S, a.S), SBool}), nil
			default:
				return tNot(Term{sx("str_lt", a.S, b.S), SBool}), nil
			}
		}
		a, b = numCoerce(a, b)
		if (a.Sort != SInt && a.Sort != SReal) || a.Sort != b.Sort {
			return a, fmt.Errorf("ordering on non-numeric sorts in %s", x)
		}
		return Term{sx(op, a.S, b.S), SBool}, nil
	case "+", "-", "*":
		if op == "+" && a.Sort == SStr && b.Sort == SStr {
			return Term{sx("str_cat", a.S, b.S), SStr}, nil
		}
		a, b = numCoerce(a, b)
		if (a.Sort != SInt && a.Sort != SReal) || a.Sort != b.Sort {
			return a, fmt.Errorf("arithmetic on non-numeric sorts in %s", x)
		}
		return Term{sx(op, a.S, b.S), a.Sort}, nil
	case "/":
		a, b = numCoerce(a, b)
		if a.Sort == SReal {
			return Term{sx("/", a.S, b.S), SReal}, nil
		}
		return Term{sx("div", a.S, b.S), SInt}, nil
	case "%":
		return Term{sx("mod", a.S, b.S), SInt}, nil
	}
	return a, fmt.Errorf("unknown operator %s", op)
}

func numCoerce(a, b Term) (Term, Term) {
	if a.Sort == SInt && b.Sort == SReal {
		return Term{sx("to_real", a.S), SReal}, b
	}
	if a.Sort == SReal && b.Sort == SInt {
		return a, Term{sx("to_real", b.S), SReal}
	}
	return a, b
}

func (e *SpecEnv) evalCall(x *SX) (Term, error) {
	args := make([]Term, 0, len(x.Args))
	evalArgs := func() error {
		for _, a := range x.Args {
			t, err := e.Eval(a)
			if err != nil {
				return err
			}
			args = append(args, t)
		}
		return nil
	}
	switch x.Name {
	case "isErr":
		if len(x.Args) != 2 {
			return Term{}, fmt.Errorf("isErr(e, Class)")
		}
		a, err := e.Eval(x.Args[0])
		if err != nil {
			return a, err
		}
		cls := x.Args[1]
		name := cls.Name
		if cls.Op == "sel" {
			// pkg.Type: the class qualified by the package name (two packages may declare error types of the same name)
			name = cls.Name
			if len(cls.Args) == 1 && cls.Args[0].Name != "" {
				name = cls.Args[0].Name + "." + cls.Name
			}
		}
		return Term{sx("errIs", a.S, e.ss().StrConst("errclass:"+name)), SBool}, nil
	}
	if x.Name == "sprintf" && len(x.Args) >= 2 && x.Args[0].Op == "str" {
		var sorts []*Sort
		var as []string
		for _, a := range x.Args[1:] {
			t, err := e.Eval(a)
			if err != nil {
				return t, err
			}
			sorts = append(sorts, t.Sort)
			as = append(as, t.S)
		}
		return Term{sx(e.ss().SprintfFn(x.Args[0].Name, sorts), as...), SStr}, nil
	}
	if x.Name == "bigstr" && len(x.Args) == 1 {
		// (*big.Int).String()
		t, err := e.Eval(x.Args[0])
		if err != nil {
			return t, err
		}
		return Term{sx("ite", sx("=", t.S, "bnil"), e.ss().StrConst("<nil>"), sx("int2str", sx("bval", t.S))), SStr}, nil
	}
	if x.Name == "boxany" && len(x.Args) == 1 {
		// boxany(x): x converted to the empty interface, as the Go code does when passing it as `any`
		t, err := e.Eval(x.Args[0])
		if err != nil {
			return t, err
		}
		if t.Sort.GoType == nil {
			return t, fmt.Errorf("boxany: the Go type of %s is not known", x.Args[0])
		}
		anyS := e.ss().Of(types.NewInterfaceType(nil, nil))
		fn, _ := e.ss().BoxFn(t.Sort, anyS, t.Sort.GoType)
		return Term{sx(fn, t.S), anyS}, nil
	}
	if x.Name == "unchangedExcept" {
		// unchangedExcept(new, old, Field1, Field2, ...): all other fields are equal
		if len(x.Args) < 2 {
			return Term{}, fmt.Errorf("unchangedExcept(new, old, fields...)")
		}
		a, err := e.Eval(x.Args[0])
		if err != nil {
			return a, err
		}
		b, err := e.Eval(x.Args[1])
		if err != nil {
			return b, err
		}
		a, b = autoDeref(a), autoDeref(b)
		if a.Sort != b.Sort || a.Sort.Kind != KStruct {
			return a, fmt.Errorf("unchangedExcept on sorts %s, %s", a.Sort.Name, b.Sort.Name)
		}
		skip := map[string]bool{}
		for _, f := range x.Args[2:] {
			if a.Sort.FieldByName(f.Name) == nil {
				return a, fmt.Errorf("unchangedExcept: no field %s in %s", f.Name, a.Sort.Name)
			}
			skip[f.Name] = true
		}
		var cs []Term
		for _, f := range a.Sort.Fields {
			if !skip[f.Name] {
				cs = append(cs, tEq(Term{sx(f.Acc, a.S), f.Sort}, Term{sx(f.Acc, b.S), f.Sort}))
			}
		}
		return tAnd(cs...), nil
	}
	if err := evalArgs(); err != nil {
		return Term{}, err
	}
	want := func(n int) error {
		if len(args) != n {
			return fmt.Errorf("%s expects %d arguments in %s", x.Name, n, x)
		}
		return nil
	}
	switch x.Name {
	case "len":
		if err := want(1); err != nil {
			return Term{}, err
		}
		a := autoDeref(args[0])
		switch a.Sort.Kind {
		case KSlice:
			return slLen(a), nil
		case KMap:
			return Term{sx("maplen_"+a.Sort.Name, a.S), SInt}, nil
		case KStr:
			return Term{sx("str_len", a.S), SInt}, nil
		}
		return a, fmt.Errorf("len of sort %s", a.Sort.Name)
	case "val":
		if err := want(1); err != nil {
			return Term{}, err
		}
		if args[0].Sort == SInt {
			return args[0], nil
		}
		if args[0].Sort != SBig {
			return args[0], fmt.Errorf("val of sort %s in %s", args[0].Sort.Name, x)
		}
		return bigVal(args[0]), nil
	case "bint":
		if err := want(1); err != nil {
			return Term{}, err
		}
		return bigMk(args[0]), nil
	case "has":
		if err := want(2); err != nil {
			return Term{}, err
		}
		m := autoDeref(args[0])
		if m.Sort.Kind == KArray && m.Sort.Elem == SBool {
			return Term{sx("select", m.S, args[1].S), SBool}, nil
		}
		if m.Sort.Kind != KMap {
			return m, fmt.Errorf("has on sort %s", m.Sort.Name)
		}
		return mpHas(m, args[1]), nil
	case "store":
		if err := want(3); err != nil {
			return Term{}, err
		}
		if args[0].Sort.Kind != KArray {
			return args[0], fmt.Errorf("store on sort %s", args[0].Sort.Name)
		}
		return Term{sx("store", args[0].S, args[1].S, args[2].S), args[0].Sort}, nil
	case "min":
		return Term{sx("imin", args[0].S, args[1].S), SInt}, nil
	case "max":
		return Term{sx("imax", args[0].S, args[1].S), SInt}, nil
	case "real":
		if args[0].Sort == SReal {
			return args[0], nil
		}
		return Term{sx("to_real", args[0].S), SReal}, nil
	case "deref":
		if args[0].Sort.Kind != KPtr {
			return args[0], fmt.Errorf("deref of sort %s", args[0].Sort.Name)
		}
		return ptrDrf(args[0]), nil
	case "str":
		// int -> decimal string
		return Term{sx("int2str", args[0].S), SStr}, nil
	case "ratparses", "ratnum", "ratden":
		// the rational number a decimal/fraction/exponent text denotes (what big.Rat.SetString parses), uninterpreted
		ratStrDecls(e.ss())
		so := SInt
		if x.Name == "ratparses" {
			so = SBool
		}
		return Term{sx(x.Name, args[0].S), so}, nil
	case "bytestr":
		// bytestr(b): the string a byte slice converts to (uninterpreted; string([]byte(s)) == s)
		if args[0].Sort.Kind != KSlice {
			return args[0], fmt.Errorf("bytestr of sort %s", args[0].Sort.Name)
		}
		fn := "bytes2str_" + args[0].Sort.Name
		e.ss().ensureDecl(fn, fmt.Sprintf("(declare-fun %s (%s) Str)", fn, args[0].Sort.Name))
		return Term{sx(fn, args[0].S), SStr}, nil
	case "sameArray":
		// sameArray(s, t): both slices view the same backing array from index 0 (s = t[:k] or the reverse)
		a, b := autoDeref(args[0]), autoDeref(args[1])
		if a.Sort.Kind != KSlice || a.Sort != b.Sort {
			return a, fmt.Errorf("sameArray on sorts %s, %s", a.Sort.Name, b.Sort.Name)
		}
		return Term{sx("=", slArr(a).S, slArr(b).S), SBool}, nil
	case "domEq":
		// domEq(m1, m2): same key set
		return Term{sx("=", mpDom(args[0]), mpDom(args[1])), SBool}, nil
	}
	base := strings.TrimSuffix(x.Name, "_upto")
	fn := e.reg.fns[base]
	if fn == nil {
		return Term{}, fmt.Errorf("unknown spec function %s", x.Name)
	}
	if fn.Kind == "sumfold" {
		upto := strings.HasSuffix(x.Name, "_upto")
		need := len(fn.Params)
		if upto {
			need++
		}
		if len(args) != need {
			return Term{}, fmt.Errorf("%s expects %d arguments", x.Name, need)
		}
		s := autoDeref(args[0])
		if s.Sort != fn.Params[0] {
			return Term{}, fmt.Errorf("%s: first argument has sort %s, want %s", x.Name, s.Sort.Name, fn.Params[0].Name)
		}
		var k string
		var extras []Term
		if upto {
			k = args[1].S
			extras = args[2:]
		} else {
			k = slLen(s).S
			extras = args[1:]
		}
		parts := []string{slArr(s).S, k}
		for i, ex := range extras {
			if ex.Sort != fn.Params[i+1] {
				return Term{}, fmt.Errorf("%s: argument %d has sort %s, want %s", x.Name, i+2, ex.Sort.Name, fn.Params[i+1].Name)
			}
			parts = append(parts, ex.S)
		}
		return Term{sx(fn.SMT, parts...), fn.Ret}, nil
	}
	if len(args) != len(fn.Params) {
		return Term{}, fmt.Errorf("%s expects %d arguments", x.Name, len(fn.Params))
	}
	var as []string
	for i, a := range args {
		if a.Sort != fn.Params[i] {
			// auto-deref pointers for convenience
			if d := autoDeref(a); d.Sort == fn.Params[i] {
				a = d
			} else {
				return Term{}, fmt.Errorf("%s: argument %d has sort %s, want %s", x.Name, i+1, a.Sort.Name, fn.Params[i].Name)
			}
		}
		as = append(as, a.S)
	}
	if len(as) == 0 {
		return Term{fn.SMT, fn.Ret}, nil
	}
	return Term{sx(fn.SMT, as...), fn.Ret}, nil
}
