package main

// Built-in functions and models of the standard-library functions the verified code uses.

import (
	"go/ast"
	"go/constant"
	"go/token"
	"go/types"
	"strings"
)

func (fv *FV) arrSortOf(elem *Sort) *Sort {
	return fv.ss.mkArray(SInt, elem)
}

func (fv *FV) evalBuiltin(st *State, call *ast.CallExpr, name string) []Term {
	switch name {
	case "len":
		v := fv.evalExpr(st, call.Args[0])
		for v.Sort.Kind == KPtr {
			v = ptrDrf(v)
		}
		switch v.Sort.Kind {
		case KSlice:
			return []Term{slLen(v)}
		case KMap:
			r := T(sx("maplen_"+v.Sort.Name, v.S), SInt)
			st.assume(T(sx(">=", r.S, "0"), SBool))
			kq := "(forall ((qk " + v.Sort.Key.Name + ")) (not (select " + mpDom(v) + " qk)))"
			st.assume(T(sx("=", sx("=", r.S, "0"), kq), SBool))
			return []Term{r}
		case KStr:
			return []Term{T(sx("str_len", v.S), SInt)}
		}
		fv.abort(call.Pos(), "len of sort %s", v.Sort.Name)
	case "append":
		return []Term{fv.evalAppend(st, call)}
	case "make":
		t := fv.info.TypeOf(call)
		so := fv.ss.Of(t)
		switch so.Kind {
		case KSlice:
			n := tInt(0)
			if len(call.Args) > 1 {
				n = fv.bind(st, fv.evalExpr(st, call.Args[1]), "n")
				fv.assert(st, "make-len", T(sx(">=", n.S, "0"), SBool), call.Pos(), "make: length is not negative")
			}
			if len(call.Args) > 2 {
				fv.evalExpr(st, call.Args[2])
			}
			return []Term{mkSlice(so, "((as const (Array Int "+so.Elem.Name+")) "+fv.ss.Zero(so.Elem)+")", n.S, "false")}
		case KMap:
			z := fv.ss.Zero(so)
			return []Term{T(strings.TrimSuffix(z, " true)")+" false)", so)}
		default:
			r := fv.fresh("made", so)
			return []Term{r}
		}
	case "new":
		t := fv.info.TypeOf(call)
		so := fv.ss.Of(t)
		switch so.Kind {
		case KBig:
			return []Term{bigMk(tInt(0))}
		case KPtr:
			return []Term{ptrMk(so, Term{fv.ss.Zero(so.Elem), so.Elem})}
		}
		r := fv.fresh("new", so)
		st.assume(tNot(tEq(r, Term{fv.ss.Zero(so), so})))
		return []Term{r}
	case "copy":
		if !fv.isPathExpr(call.Args[0]) {
			fv.abort(call.Pos(), "copy into a non-location")
		}
		dp := fv.lvalue(st, call.Args[0])
		dst := fv.readPath(st, dp, false)
		src := fv.bind(st, fv.evalExpr(st, call.Args[1]), "src")
		if dst.Sort.Kind != KSlice || src.Sort != dst.Sort {
			fv.abort(call.Pos(), "copy between sorts %s and %s", dst.Sort.Name, src.Sort.Name)
		}
		n := fv.bind(st, T(sx("imin", slLen(dst).S, slLen(src).S), SInt), "ncopy")
		arr := fv.fresh("copied", fv.arrSortOf(dst.Sort.Elem))
		st.assume(T("(forall ((j Int)) (! (= (select "+arr.S+" j) (ite (and (<= 0 j) (< j "+n.S+")) (select "+slArr(src).S+" j) (select "+slArr(dst).S+" j))) :pattern ((select "+arr.S+" j))))", SBool))
		for _, f := range fv.reg.folds[dst.Sort.Elem.Name] {
			d, nm := fv.foldQuant(f)
			st.assume(T("(forall ((k Int)"+d+") (! (=> (and (<= 0 k) (<= k "+n.S+")) (= ("+f.SMT+" "+arr.S+" k"+nm+") ("+f.SMT+" "+slArr(src).S+" k"+nm+"))) :pattern (("+f.SMT+" "+arr.S+" k"+nm+"))))", SBool))
		}
		fv.writePath(st, dp, mkSlice(dst.Sort, arr.S, slLen(dst).S, slNil(dst).S), call.Pos())
		return []Term{n}
	case "delete":
		if !fv.isPathExpr(call.Args[0]) {
			fv.abort(call.Pos(), "delete on a non-location")
		}
		mp := fv.lvalue(st, call.Args[0])
		m := fv.readPath(st, mp, false)
		k := fv.evalExpr(st, call.Args[1])
		fv.writePath(st, mp, mkMap(m.Sort, sx("store", mpDom(m), k.S, "false"), sx("store", mpVal(m), k.S, fv.ss.Zero(m.Sort.Elem)), mpNil(m).S), call.Pos())
		return nil
	case "panic":
		for _, a := range call.Args {
			fv.evalExprLoose(st, a)
		}
		fv.assert(st, "panic", tBool(false), call.Pos(), "explicit panic is unreachable")
		return nil
	case "close":
		fv.note("close of channel dropped")
		return nil
	case "min", "max":
		a := fv.evalExpr(st, call.Args[0])
		for _, x := range call.Args[1:] {
			b := fv.evalExpr(st, x)
			a = T(sx("i"+name, a.S, b.S), SInt)
		}
		return []Term{a}
	}
	fv.abort(call.Pos(), "unsupported builtin %s", name)
	return nil
}

func (fv *FV) evalAppend(st *State, call *ast.CallExpr) Term {
	s := fv.bind(st, fv.evalExpr(st, call.Args[0]), "s")
	if s.Sort.Kind != KSlice {
		fv.abort(call.Pos(), "append to sort %s", s.Sort.Name)
	}
	et := fv.info.TypeOf(call).Underlying().(*types.Slice).Elem()
	if call.Ellipsis.IsValid() {
		t := fv.bind(st, fv.evalExpr(st, call.Args[1]), "t")
		if t.Sort != s.Sort {
			fv.abort(call.Pos(), "append(s, t...) with sorts %s and %s", s.Sort.Name, t.Sort.Name)
		}
		ls, lt := slLen(s).S, slLen(t).S
		arr := fv.fresh("app", fv.arrSortOf(s.Sort.Elem))
		st.assume(T(sx(">=", ls, "0"), SBool))
		st.assume(T(sx(">=", lt, "0"), SBool))
		st.assume(T("(forall ((j Int)) (! (=> (and (<= 0 j) (< j (+ "+ls+" "+lt+"))) (= (select "+arr.S+" j) (ite (< j "+ls+") (select "+slArr(s).S+" j) (select "+slArr(t).S+" (- j "+ls+"))))) :pattern ((select "+arr.S+" j))))", SBool))
		for _, f := range fv.reg.folds[s.Sort.Elem.Name] {
			d, nm := fv.foldQuant(f)
			F := f.SMT
			// prefix (extensionality lemma) and suffix (concatenation lemma)
			st.assume(T("(forall ((k Int)"+d+") (! (=> (and (<= 0 k) (<= k "+ls+")) (= ("+F+" "+arr.S+" k"+nm+") ("+F+" "+slArr(s).S+" k"+nm+"))) :pattern (("+F+" "+arr.S+" k"+nm+"))))", SBool))
			st.assume(T("(forall ((k Int)"+d+") (! (=> (and (<= "+ls+" k) (<= k (+ "+ls+" "+lt+"))) (= ("+F+" "+arr.S+" k"+nm+") (+ ("+F+" "+slArr(s).S+" "+ls+nm+") ("+F+" "+slArr(t).S+" (- k "+ls+")"+nm+")))) :pattern (("+F+" "+arr.S+" k"+nm+"))))", SBool))
		}
		return mkSlice(s.Sort, arr.S, sx("+", ls, lt), "false")
	}
	arr := slArr(s).S
	n := slLen(s).S
	st.assume(T(sx(">=", n, "0"), SBool))
	for i, a := range call.Args[1:] {
		v := fv.evalExpr(st, a)
		v = fv.convertTo(st, v, fv.info.TypeOf(a), et, a.Pos())
		idx := n
		if i > 0 {
			idx = sx("+", n, tInt(int64(i)).S)
		}
		arr = sx("store", arr, idx, v.S)
	}
	k := len(call.Args) - 1
	if k == 0 {
		return s
	}
	return mkSlice(s.Sort, arr, sx("+", n, tInt(int64(k)).S), "false")
}

var modelled = map[string]bool{
	"math/big.NewInt": true, "math/big.NewRat": true,
	"errors.New": true, "errors.Is": true, "errors.As": true, "fmt.Errorf": true, "fmt.Sprintf": true, "fmt.Sprint": true,
	"github.com/formancehq/go-libs/v5/pkg/types/pointer.For": true,
	"encoding/json.Unmarshal": true,
	"strconv.Itoa": true, "strconv.FormatUint": true, "strconv.FormatInt": true,
}

func (fv *FV) hasModel(f *types.Func) bool {
	if f.Pkg() == nil {
		return f.Name() == "Error"
	}
	if modelled[f.Pkg().Path()+"."+f.Name()] {
		return true
	}
	if f.Pkg().Path() == "math/big" {
		if sig := f.Type().(*types.Signature); sig.Recv() != nil {
			rt := sig.Recv().Type().String()
			return rt == "*math/big.Int" || rt == "*math/big.Rat"
		}
	}
	return false
}

// recvBig evaluates the receiver of a math/big method; returns its current value (Int), and a write-back function.
func (fv *FV) recvBig(st *State, e ast.Expr) (Term, func(Term)) {
	e = stripParens(e)
	// conversion wrappers such as (*big.Int)(a)
	if c, ok := e.(*ast.CallExpr); ok {
		if tv, ok := fv.info.Types[c.Fun]; ok && tv.IsType() && len(c.Args) == 1 {
			return fv.recvBig(st, c.Args[0])
		}
	}
	if u, ok := e.(*ast.UnaryExpr); ok && u.Op == token.AND {
		inner := stripParens(u.X)
		if fv.isPathExpr(inner) {
			p := fv.lvalue(st, inner)
			cur := fv.readPath(st, p, false)
			return cur, func(v Term) { fv.writePath(st, p, v, e.Pos()) }
		}
		if _, isLit := inner.(*ast.CompositeLit); isLit {
			return tInt(0), func(Term) {}
		}
	}
	if fv.isPathExpr(e) {
		p := fv.lvalue(st, e)
		cur := fv.readPath(st, p, false)
		if cur.Sort == SInt { // addressable big.Int value
			return cur, func(v Term) { fv.writePath(st, p, v, e.Pos()) }
		}
		if cur.Sort == SBig {
			fv.assert(st, "nil-deref", tNot(tEq(cur, T("bnil", SBig))), e.Pos(), "math/big method on nil receiver")
			return bigVal(cur), func(v Term) {
				if len(fv.resolveAlias(st, p).Steps) > 0 {
					fv.note("in-place math/big update through a shared location is modelled as an update of that location (aliases are not tracked)")
				}
				fv.writePath(st, p, bigMk(v), e.Pos())
			}
		}
	}
	// allocation expression or other rvalue: no location to update
	v := fv.evalExpr(st, e)
	if v.Sort == SBig {
		fv.assert(st, "nil-deref", tNot(tEq(v, T("bnil", SBig))), e.Pos(), "math/big method on nil receiver")
		return bigVal(v), func(Term) {}
	}
	return v, func(Term) {}
}

func (fv *FV) bigArg(st *State, e ast.Expr) Term {
	v := fv.evalExpr(st, e)
	if v.Sort == SBig {
		fv.assert(st, "nil-deref", tNot(tEq(v, T("bnil", SBig))), e.Pos(), "nil *big.Int argument")
		return bigVal(v)
	}
	return v
}

func (fv *FV) applyModel(st *State, call *ast.CallExpr, callee *types.Func, sel *ast.SelectorExpr) ([]Term, bool) {
	if !fv.hasModel(callee) {
		return nil, false
	}
	if callee.Pkg() == nil { // error.Error()
		fv.evalExpr(st, sel.X)
		return []Term{fv.fresh("errmsg", SStr)}, true
	}
	path := callee.Pkg().Path()
	name := callee.Name()
	full := path + "." + name
	sig := callee.Type().(*types.Signature)
	if path == "math/big" && sig.Recv() != nil {
		if sig.Recv().Type().String() == "*math/big.Rat" {
			return fv.ratModel(st, call, name, sel), true
		}
		return fv.bigModel(st, call, name, sel), true
	}
	switch full {
	case "math/big.NewInt":
		v := fv.evalExpr(st, call.Args[0])
		return []Term{bigMk(v)}, true
	case "math/big.NewRat":
		a := fv.evalExpr(st, call.Args[0])
		b := fv.evalExpr(st, call.Args[1])
		fv.assert(st, "div-zero", tNot(tEq(b, tInt(0))), call.Pos(), "big.NewRat: denominator is not zero")
		r := fv.fresh("rat", SRat)
		st.assume(T(sx(">", sx("rden", r.S), "0"), SBool))
		st.assume(T(sx("=", sx("*", sx("rnum", r.S), b.S), sx("*", a.S, sx("rden", r.S))), SBool))
		pso := fv.ss.Of(fv.info.TypeOf(call))
		return []Term{ptrMk(pso, r)}, true
	case "errors.New":
		fv.evalExprLoose(st, call.Args[0])
		r := fv.fresh("err", SErr)
		st.assume(tNot(tEq(r, T("err_nil", SErr))))
		return []Term{r}, true
	case "fmt.Errorf":
		r := fv.fresh("err", SErr)
		st.assume(tNot(tEq(r, T("err_nil", SErr))))
		wraps := false
		if tv, ok := fv.info.Types[call.Args[0]]; ok && tv.Value != nil {
			wraps = strings.Contains(tv.Value.ExactString(), "%w")
		}
		for _, a := range call.Args[1:] {
			v := fv.evalExpr(st, a)
			if wraps && v.Sort == SErr {
				st.assume(T("(forall ((c Str)) (! (=> (errIs "+v.S+" c) (errIs "+r.S+" c)) :pattern ((errIs "+r.S+" c))))", SBool))
				st.assume(T("(forall ((c Str)) (! (=> (errIs "+r.S+" c) (errIs "+v.S+" c)) :pattern ((errIs "+r.S+" c))))", SBool))
			}
		}
		if !wraps {
			st.assume(T("(forall ((c Str)) (! (not (errIs "+r.S+" c)) :pattern ((errIs "+r.S+" c))))", SBool))
		}
		return []Term{r}, true
	case "fmt.Sprintf", "fmt.Sprint":
		var vals []Term
		for _, a := range call.Args {
			vals = append(vals, fv.evalExpr(st, a))
		}
		if full == "fmt.Sprint" && len(vals) == 1 && vals[0].Sort == SInt {
			return []Term{T(sx("int2str", vals[0].S), SStr)}, true // decimal rendering of one integer
		}
		if full == "fmt.Sprintf" && len(vals) >= 1 {
			if tv, ok := fv.info.Types[call.Args[0]]; ok && tv.Value != nil && !call.Ellipsis.IsValid() {
				format := constant.StringVal(tv.Value)
				var sorts []*Sort
				var as []string
				for _, v := range vals[1:] {
					sorts = append(sorts, v.Sort)
					as = append(as, v.S)
				}
				if len(as) == 0 {
					return []Term{T(fv.ss.StrConst(format), SStr)}, true
				}
				return []Term{T(sx(fv.ss.SprintfFn(format, sorts), as...), SStr)}, true
			}
		}
		return []Term{fv.fresh("str", SStr)}, true
	case "strconv.Itoa", "strconv.FormatUint", "strconv.FormatInt":
		v := fv.evalExpr(st, call.Args[0])
		for _, a := range call.Args[1:] {
			fv.evalExpr(st, a)
		}
		return []Term{T(sx("int2str", v.S), SStr)}, true
	case "errors.Is":
		e := fv.evalExpr(st, call.Args[0])
		cls := fv.errClassOf(call.Args[1])
		if cls == "" {
			fv.evalExpr(st, call.Args[1])
			fv.note("errors.Is with a non-constant target abstracted")
			return []Term{fv.fresh("is", SBool)}, true
		}
		return []Term{T(sx("errIs", e.S, fv.ss.StrConst("errclass:"+cls)), SBool)}, true
	case "encoding/json.Unmarshal":
		// json.Unmarshal(data, &x): x is overwritten with an arbitrary value of its type (JSON null leaves pointers and maps nil)
		fv.evalExpr(st, call.Args[0])
		tgt := stripParens(call.Args[1])
		if u, ok := tgt.(*ast.UnaryExpr); ok && u.Op == token.AND && fv.isPathExpr(stripParens(u.X)) {
			p := fv.lvalue(st, stripParens(u.X))
			cur := fv.readPath(st, p, true)
			nv := fv.fresh("unmarshalled", cur.Sort)
			if cur.Sort.Kind == KOpaque {
				// an interface holding a pointer: JSON null makes it nil, anything else decodes into the value it holds
				dt := fv.ss.DynTypeFn(cur.Sort)
				st.assume(tOr(tEq(nv, Term{fv.ss.Zero(cur.Sort), cur.Sort}), T(sx("=", sx(dt, nv.S), sx(dt, cur.S)), SBool)))
				if bi, ok := fv.boxedFrom[cur.S]; ok && bi.v.Sort.Kind == KPtr {
					// the interface held a pointer: unless it became nil it still holds a (non-nil) pointer of that type
					fn, _ := fv.ss.BoxFn(bi.v.Sort, cur.Sort, bi.typ)
					np := fv.fresh("unmarshalledptr", bi.v.Sort)
					st.assume(tImp(tNot(tEq(bi.v, ptrNil(bi.v.Sort))), tNot(tEq(np, ptrNil(bi.v.Sort)))))
					st.assume(tOr(tEq(nv, Term{fv.ss.Zero(cur.Sort), cur.Sort}), tEq(nv, Term{sx(fn, np.S), cur.Sort})))
				}
			}
			fv.writePath(st, p, nv, call.Pos())
		} else if fv.isPathExpr(tgt) {
			p := fv.lvalue(st, tgt)
			cur := fv.readPath(st, p, true)
			switch cur.Sort.Kind {
			case KPtr:
				nv := fv.fresh("unmarshalled", cur.Sort)
				st.assume(tEq(tEq(nv, ptrNil(cur.Sort)), tEq(cur, ptrNil(cur.Sort))))
				fv.writePath(st, p, nv, call.Pos())
			case KBig:
				// target *big.Int: the pointee is overwritten; the pointer itself stays as it was
				nv := fv.fresh("unmarshalled", SInt)
				fv.writePath(st, p, tIte(tEq(cur, T("bnil", SBig)), cur, bigMk(nv)), call.Pos())
			case KOpaque:
				// an interface value (holding a pointer): what it points to is overwritten; the interface keeps its dynamic
				// type, a nil interface is refused (InvalidUnmarshalError)
				nv := fv.fresh("unmarshalled", cur.Sort)
				zero := Term{fv.ss.Zero(cur.Sort), cur.Sort}
				dt := fv.ss.DynTypeFn(cur.Sort)
				st.assume(T(sx("=", sx(dt, nv.S), sx(dt, cur.S)), SBool))
				st.assume(tEq(tEq(nv, zero), tEq(cur, zero)))
				for _, bp := range append([]boxPair(nil), fv.ss.boxPairs[cur.Sort.Name]...) {
					if bp.from.Kind != KPtr || bp.goType == nil {
						continue
					}
					_, un := fv.ss.BoxFn(bp.from, cur.Sort, bp.goType)
					has := Term{sx("=", sx(dt, cur.S), fv.ss.StrConst("type:"+bp.tname)), SBool}
					st.assume(tImp(has, tEq(tEq(Term{sx(un, nv.S), bp.from}, ptrNil(bp.from)), tEq(Term{sx(un, cur.S), bp.from}, ptrNil(bp.from)))))
				}
				fv.writePath(st, p, nv, call.Pos())
				jerr := fv.fresh("jsonerr", SErr)
				st.assume(tImp(tEq(cur, zero), tNot(tEq(jerr, T("err_nil", SErr)))))
				return []Term{jerr}, true
			default:
				fv.note("json.Unmarshal into an opaque target: target not modelled")
			}
		} else {
			fv.evalExprLoose(st, call.Args[1])
			fv.note("json.Unmarshal into a non-location: target not modelled")
		}
		return []Term{fv.fresh("jsonerr", SErr)}, true
	case "errors.As":
		for _, a := range call.Args {
			fv.evalExprLoose(st, a)
		}
		fv.note("errors.As abstracted (result unconstrained)")
		return []Term{fv.fresh("as", SBool)}, true
	case "github.com/formancehq/go-libs/v5/pkg/types/pointer.For":
		v := fv.evalExpr(st, call.Args[0])
		pso := fv.ss.Of(fv.info.TypeOf(call))
		switch pso.Kind {
		case KBig:
			return []Term{bigMk(v)}, true
		case KPtr:
			return []Term{ptrMk(pso, v)}, true
		}
		r := fv.fresh("ptr", pso)
		st.assume(tNot(tEq(r, Term{fv.ss.Zero(pso), pso})))
		return []Term{r}, true
	}
	return nil, false
}

func (fv *FV) errClassOf(e ast.Expr) string {
	e = stripParens(e)
	switch x := e.(type) {
	case *ast.Ident:
		if _, ok := fv.info.ObjectOf(x).(*types.Var); ok {
			if v := fv.info.ObjectOf(x).(*types.Var); v.Parent() == v.Pkg().Scope() {
				return x.Name
			}
		}
	case *ast.SelectorExpr:
		if fv.info.Selections[x] == nil {
			if _, ok := fv.info.ObjectOf(x.Sel).(*types.Var); ok {
				return x.Sel.Name
			}
		}
	case *ast.CompositeLit:
		return typeBaseName(fv.info.TypeOf(x))
	case *ast.UnaryExpr:
		if x.Op == token.AND {
			return fv.errClassOf(x.X)
		}
	}
	return ""
}

func (fv *FV) bigModel(st *State, call *ast.CallExpr, name string, sel *ast.SelectorExpr) []Term {
	two64 := "18446744073709551616"
	switch name {
	case "Add", "Sub", "Mul", "Div", "Quo", "Neg", "Set", "Abs", "SetInt64", "SetUint64":
		_, wb := fv.recvBig(st, sel.X)
		var v Term
		switch name {
		case "Add", "Sub", "Mul":
			a := fv.bigArg(st, call.Args[0])
			b := fv.bigArg(st, call.Args[1])
			op := map[string]string{"Add": "+", "Sub": "-", "Mul": "*"}[name]
			v = T(sx(op, a.S, b.S), SInt)
		case "Div":
			a := fv.bigArg(st, call.Args[0])
			b := fv.bigArg(st, call.Args[1])
			fv.assert(st, "div-zero", tNot(tEq(b, tInt(0))), call.Pos(), "big.Int.Div: divisor is not zero")
			v = T(sx("div", a.S, b.S), SInt) // Euclidean, as math/big documents
		case "Quo":
			a := fv.bigArg(st, call.Args[0])
			b := fv.bigArg(st, call.Args[1])
			fv.assert(st, "div-zero", tNot(tEq(b, tInt(0))), call.Pos(), "big.Int.Quo: divisor is not zero")
			q := sx("div", a.S, b.S)
			v = T(sx("ite", sx("or", sx(">=", a.S, "0"), sx("=", sx("mod", a.S, b.S), "0")), q, sx("ite", sx(">", b.S, "0"), sx("+", q, "1"), sx("-", q, "1"))), SInt)
		case "Neg":
			a := fv.bigArg(st, call.Args[0])
			v = T(sx("-", a.S), SInt)
		case "Abs":
			a := fv.bigArg(st, call.Args[0])
			v = T(sx("abs", a.S), SInt)
		case "Set":
			v = fv.bigArg(st, call.Args[0])
		case "SetInt64", "SetUint64":
			v = fv.evalExpr(st, call.Args[0])
		}
		v = fv.bind(st, v, "big")
		wb(v)
		return []Term{bigMk(v)}
	case "Cmp":
		a, _ := fv.recvBig(st, sel.X)
		b := fv.bigArg(st, call.Args[0])
		return []Term{T(sx("ite", sx("<", a.S, b.S), "(- 1)", sx("ite", sx(">", a.S, b.S), "1", "0")), SInt)}
	case "Sign":
		a, _ := fv.recvBig(st, sel.X)
		return []Term{T(sx("ite", sx("<", a.S, "0"), "(- 1)", sx("ite", sx(">", a.S, "0"), "1", "0")), SInt)}
	case "Uint64":
		a, _ := fv.recvBig(st, sel.X)
		r := fv.fresh("u64", SInt)
		st.assume(tAnd(T(sx("<=", "0", r.S), SBool), T(sx("<", r.S, two64), SBool)))
		st.assume(tImp(tAnd(T(sx("<=", "0", a.S), SBool), T(sx("<", a.S, two64), SBool)), tEq(r, a)))
		if fv.fc.Opts["narrowing"] == "on" {
			fv.assert(st, "big-narrowing", tAnd(T(sx("<=", "0", a.S), SBool), T(sx("<", a.S, two64), SBool)), call.Pos(), "big.Int.Uint64 is exact: value fits 64 bits")
		}
		return []Term{r}
	case "Int64":
		a, _ := fv.recvBig(st, sel.X)
		r := fv.fresh("i64", SInt)
		in := tAnd(T(sx("<=", "(- 9223372036854775808)", a.S), SBool), T(sx("<=", a.S, "9223372036854775807"), SBool))
		st.assume(tImp(in, tEq(r, a)))
		if fv.fc.Opts["narrowing"] == "on" {
			fv.assert(st, "big-narrowing", in, call.Pos(), "big.Int.Int64 is exact: value fits 64 bits")
		}
		return []Term{r}
	case "IsInt64", "IsUint64":
		a, _ := fv.recvBig(st, sel.X)
		if name == "IsInt64" {
			return []Term{tAnd(T(sx("<=", "(- 9223372036854775808)", a.S), SBool), T(sx("<=", a.S, "9223372036854775807"), SBool))}
		}
		return []Term{tAnd(T(sx("<=", "0", a.S), SBool), T(sx("<", a.S, two64), SBool))}
	case "String", "Text":
		// (*big.Int).String tolerates nil receivers ("<nil>")
		v := fv.evalExpr(st, stripParens(sel.X))
		for _, a := range call.Args {
			fv.evalExpr(st, a)
		}
		if v.Sort == SBig {
			return []Term{T(sx("ite", sx("=", v.S, "bnil"), fv.ss.StrConst("<nil>"), sx("int2str", sx("bval", v.S))), SStr)}
		}
		return []Term{T(sx("int2str", v.S), SStr)}
	case "SetString":
		_, wb := fv.recvBig(st, sel.X)
		for _, a := range call.Args {
			fv.evalExpr(st, a)
		}
		ok := fv.fresh("ok", SBool)
		v := fv.fresh("parsed", SInt)
		wb(v)
		return []Term{T(sx("ite", ok.S, sx("bint", v.S), "bnil"), SBig), ok}
	case "MarshalJSON", "MarshalText":
		fv.recvBig(st, sel.X)
		so, _ := fv.resultSorts(call)
		return []Term{fv.fresh("bytes", so[0]), T("err_nil", SErr)}
	case "UnmarshalJSON", "UnmarshalText":
		_, wb := fv.recvBig(st, sel.X)
		fv.evalExpr(st, call.Args[0])
		e := fv.fresh("err", SErr)
		v := fv.fresh("parsed", SInt)
		wb(v)
		return []Term{e}
	}
	fv.abort(call.Pos(), "math/big.Int.%s has no model", name)
	return nil
}

// ratValue evaluates a *big.Rat / big.Rat expression to a Rat term (num, den) and optional write-back.
func (fv *FV) ratRecv(st *State, e ast.Expr) (Term, func(Term)) {
	e = stripParens(e)
	if u, ok := e.(*ast.UnaryExpr); ok && u.Op == token.AND && fv.isPathExpr(stripParens(u.X)) {
		p := fv.lvalue(st, stripParens(u.X))
		return fv.readPath(st, p, false), func(v Term) { fv.writePath(st, p, v, e.Pos()) }
	}
	if fv.isPathExpr(e) {
		p := fv.lvalue(st, e)
		cur := fv.readPath(st, p, false)
		if cur.Sort == SRat {
			return cur, func(v Term) { fv.writePath(st, p, v, e.Pos()) }
		}
		if cur.Sort.Kind == KPtr && cur.Sort.Elem == SRat {
			fv.assert(st, "nil-deref", tNot(tEq(cur, ptrNil(cur.Sort))), e.Pos(), "math/big.Rat method on nil receiver")
			so := cur.Sort
			return ptrDrf(cur), func(v Term) { fv.writePath(st, p, ptrMk(so, v), e.Pos()) }
		}
	}
	v := fv.evalExpr(st, e)
	if v.Sort.Kind == KPtr && v.Sort.Elem == SRat {
		fv.assert(st, "nil-deref", tNot(tEq(v, ptrNil(v.Sort))), e.Pos(), "nil *big.Rat")
		return ptrDrf(v), func(Term) {}
	}
	return v, func(Term) {}
}

func ratReal(r Term) string {
	return sx("/", sx("to_real", sx("rnum", r.S)), sx("to_real", sx("rden", r.S)))
}

func (fv *FV) ratModel(st *State, call *ast.CallExpr, name string, sel *ast.SelectorExpr) []Term {
	switch name {
	case "Num", "Denom":
		r, _ := fv.ratRecv(st, sel.X)
		st.assume(T(sx(">", sx("rden", r.S), "0"), SBool)) // math/big invariant: denominators are positive
		if name == "Num" {
			return []Term{bigMk(T(sx("rnum", r.S), SInt))}
		}
		return []Term{bigMk(T(sx("rden", r.S), SInt))}
	case "Add", "Sub":
		_, wb := fv.ratRecv(st, sel.X)
		a, _ := fv.ratRecv(st, call.Args[0])
		b, _ := fv.ratRecv(st, call.Args[1])
		r := fv.fresh("rat", SRat)
		st.assume(T(sx(">", sx("rden", a.S), "0"), SBool))
		st.assume(T(sx(">", sx("rden", b.S), "0"), SBool))
		st.assume(T(sx(">", sx("rden", r.S), "0"), SBool))
		op := "+"
		if name == "Sub" {
			op = "-"
		}
		st.assume(T(sx("=", ratReal(r), sx(op, ratReal(a), ratReal(b))), SBool))
		wb(r)
		pso := fv.ss.Of(fv.info.TypeOf(call))
		return []Term{ptrMk(pso, r)}
	case "Cmp":
		a, _ := fv.ratRecv(st, sel.X)
		b, _ := fv.ratRecv(st, call.Args[0])
		st.assume(T(sx(">", sx("rden", a.S), "0"), SBool))
		st.assume(T(sx(">", sx("rden", b.S), "0"), SBool))
		return []Term{T(sx("ite", sx("<", ratReal(a), ratReal(b)), "(- 1)", sx("ite", sx(">", ratReal(a), ratReal(b)), "1", "0")), SInt)}
	case "Mul":
		_, wb := fv.ratRecv(st, sel.X)
		a, _ := fv.ratRecv(st, call.Args[0])
		bb, _ := fv.ratRecv(st, call.Args[1])
		r := fv.fresh("rat", SRat)
		st.assume(T(sx(">", sx("rden", a.S), "0"), SBool))
		st.assume(T(sx(">", sx("rden", bb.S), "0"), SBool))
		st.assume(T(sx(">", sx("rden", r.S), "0"), SBool))
		st.assume(T(sx("=", ratReal(r), sx("*", ratReal(a), ratReal(bb))), SBool))
		wb(r)
		pso := fv.ss.Of(fv.info.TypeOf(call))
		return []Term{ptrMk(pso, r)}
	case "SetInt", "SetInt64", "SetUint64":
		_, wb := fv.ratRecv(st, sel.X)
		var a Term
		if name == "SetInt" {
			a = fv.bigArg(st, call.Args[0])
		} else {
			a = fv.evalExpr(st, call.Args[0])
		}
		r := Term{sx("mk_Rat", a.S, "1"), SRat}
		wb(r)
		pso := fv.ss.Of(fv.info.TypeOf(call))
		return []Term{ptrMk(pso, r)}
	case "SetFrac", "SetFrac64":
		// z.SetFrac(a, b) sets z to a/b and panics on b == 0
		_, wb := fv.ratRecv(st, sel.X)
		var a, b Term
		if name == "SetFrac" {
			a, b = fv.bigArg(st, call.Args[0]), fv.bigArg(st, call.Args[1])
		} else {
			a, b = fv.evalExpr(st, call.Args[0]), fv.evalExpr(st, call.Args[1])
		}
		fv.assert(st, "div-zero", tNot(tEq(b, tInt(0))), call.Pos(), "big.Rat.SetFrac: denominator is not zero (SetFrac panics)")
		r := fv.fresh("rat", SRat)
		st.assume(T(sx(">", sx("rden", r.S), "0"), SBool))
		st.assume(T(sx("=", sx("*", sx("rnum", r.S), b.S), sx("*", a.S, sx("rden", r.S))), SBool))
		wb(r)
		pso := fv.ss.Of(fv.info.TypeOf(call))
		return []Term{ptrMk(pso, r)}
	case "Sign":
		// the sign of a rational is the sign of its numerator (denominators are positive)
		r, _ := fv.ratRecv(st, sel.X)
		st.assume(T(sx(">", sx("rden", r.S), "0"), SBool))
		n := sx("rnum", r.S)
		return []Term{T(sx("ite", sx(">", n, "0"), "1", sx("ite", sx("<", n, "0"), "(- 1)", "0")), SInt)}
	case "IsInt":
		r, _ := fv.ratRecv(st, sel.X)
		st.assume(T(sx(">", sx("rden", r.S), "0"), SBool))
		// math/big keeps rationals in lowest terms: an integral value has denominator 1
		st.assume(T(sx("=>", sx("=", sx("mod", sx("rnum", r.S), sx("rden", r.S)), "0"), sx("=", sx("rden", r.S), "1")), SBool))
		return []Term{T(sx("=", sx("mod", sx("rnum", r.S), sx("rden", r.S)), "0"), SBool)}
	case "SetString":
		// the rational a text denotes is an uninterpreted function of the text (ratparses / ratnum / ratden in specs)
		_, wb := fv.ratRecv(st, sel.X)
		str := fv.evalExpr(st, call.Args[0])
		ratStrDecls(fv.ss)
		ok := fv.fresh("ok", SBool)
		r := fv.fresh("rat", SRat)
		st.assume(T(sx(">", sx("rden", r.S), "0"), SBool))
		st.assume(T(sx("=", ok.S, sx("ratparses", str.S)), SBool))
		st.assume(T(sx("=>", ok.S, sx("and", sx("=", sx("rnum", r.S), sx("ratnum", str.S)), sx("=", sx("rden", r.S), sx("ratden", str.S)))), SBool))
		wb(r)
		rs, _ := fv.resultSorts(call)
		return []Term{tIte(ok, ptrMk(rs[0], r), ptrNil(rs[0])), ok}
	case "String", "FloatString", "RatString":
		fv.ratRecv(st, sel.X)
		for _, a := range call.Args {
			fv.evalExpr(st, a)
		}
		return []Term{fv.fresh("ratstr", SStr)}
	}
	fv.abort(call.Pos(), "math/big.Rat.%s has no model", name)
	return nil
}


func ratStrDecls(ss *Sorts) {
	ss.ensureDecl("ratparses", "(declare-fun ratparses (Str) Bool)\n(declare-fun ratnum (Str) Int)\n(declare-fun ratden (Str) Int)\n(assert (forall ((s Str)) (! (> (ratden s) 0) :pattern ((ratden s)))))")
}
