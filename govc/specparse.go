package main

// Parser for the contract expression language (Gobra-like, inside //@ comments).

import (
	"fmt"
	"strings"
	"unicode"
)

type TypeX struct {
	Args []*TypeX // type arguments of a generic named type
	Kind string // "name", "ptr", "slice", "map", "arr"
	Pkg  string
	Name string
	Key  *TypeX
	Elem *TypeX
}

func (t *TypeX) String() string {
	switch t.Kind {
	case "name":
		if t.Pkg != "" {
			return t.Pkg + "." + t.Name
		}
		return t.Name
	case "ptr":
		return "*" + t.Elem.String()
	case "slice":
		return "[]" + t.Elem.String()
	case "map":
		return "map[" + t.Key.String() + "]" + t.Elem.String()
	case "arr":
		return "arr[" + t.Key.String() + "]" + t.Elem.String()
	}
	return "?"
}

type QVar struct {
	Name string
	Type *TypeX
}

type SX struct {
	Op   string
	Name string
	Args []*SX
	Vars []QVar
	Type *TypeX
	Src  string
}

func (x *SX) String() string {
	if x == nil {
		return "<nil>"
	}
	switch x.Op {
	case "id", "int", "bool":
		return x.Name
	case "str":
		return fmt.Sprintf("%q", x.Name)
	case "nil":
		return "nil"
	case "call":
		var as []string
		for _, a := range x.Args {
			as = append(as, a.String())
		}
		return x.Name + "(" + strings.Join(as, ", ") + ")"
	case "sel":
		return x.Args[0].String() + "." + x.Name
	case "idx":
		return x.Args[0].String() + "[" + x.Args[1].String() + "]"
	case "un":
		return x.Name + x.Args[0].String()
	case "bin":
		return "(" + x.Args[0].String() + " " + x.Name + " " + x.Args[1].String() + ")"
	case "ite":
		return "(" + x.Args[0].String() + " ? " + x.Args[1].String() + " : " + x.Args[2].String() + ")"
	case "old":
		return "old(" + x.Args[0].String() + ")"
	case "forall", "exists":
		var vs []string
		for _, v := range x.Vars {
			vs = append(vs, v.Name+" "+v.Type.String())
		}
		return "(" + x.Op + " " + strings.Join(vs, ", ") + " :: " + x.Args[0].String() + ")"
	case "as":
		return x.Args[0].String() + ".(" + x.Type.String() + ")"
	case "is":
		return "is(" + x.Args[0].String() + ", " + x.Type.String() + ")"
	}
	return x.Op
}

type tok struct {
	k string // "id","int","str","op","eof"
	s string
}

type lexer struct {
	toks []tok
	p    int
	src  string
}

func lexSpec(src string) ([]tok, error) {
	var ts []tok
	rs := []rune(src)
	i := 0
	for i < len(rs) {
		c := rs[i]
		switch {
		case unicode.IsSpace(c):
			i++
		case unicode.IsLetter(c) || c == '_' || c == '$':
			j := i
			for j < len(rs) && (unicode.IsLetter(rs[j]) || unicode.IsDigit(rs[j]) || rs[j] == '_' || rs[j] == '$') {
				j++
			}
			ts = append(ts, tok{"id", string(rs[i:j])})
			i = j
		case unicode.IsDigit(c):
			j := i
			for j < len(rs) && unicode.IsDigit(rs[j]) {
				j++
			}
			ts = append(ts, tok{"int", string(rs[i:j])})
			i = j
		case c == '"':
			j := i + 1
			var b strings.Builder
			for j < len(rs) && rs[j] != '"' {
				if rs[j] == '\\' && j+1 < len(rs) {
					j++
				}
				b.WriteRune(rs[j])
				j++
			}
			if j >= len(rs) {
				return nil, fmt.Errorf("unterminated string in %q", src)
			}
			ts = append(ts, tok{"str", b.String()})
			i = j + 1
		default:
			ops := []string{"<==>", "==>", "::", "==", "!=", "<=", ">=", "&&", "||", "..", "[]"}
			matched := false
			for _, op := range ops {
				if strings.HasPrefix(string(rs[i:]), op) {
					ts = append(ts, tok{"op", op})
					i += len([]rune(op))
					matched = true
					break
				}
			}
			if matched {
				continue
			}
			if strings.ContainsRune("+-*/%<>!()[].,?:{}", c) {
				ts = append(ts, tok{"op", string(c)})
				i++
				continue
			}
			return nil, fmt.Errorf("unexpected character %q in %q", string(c), src)
		}
	}
	ts = append(ts, tok{"eof", ""})
	return ts, nil
}

type sparser struct {
	ts  []tok
	p   int
	src string
}

func (p *sparser) peek() tok { return p.ts[p.p] }
func (p *sparser) next() tok { t := p.ts[p.p]; p.p++; return t }
func (p *sparser) isOp(s string) bool {
	t := p.peek()
	return t.k == "op" && t.s == s
}
func (p *sparser) isID(s string) bool {
	t := p.peek()
	return t.k == "id" && t.s == s
}
func (p *sparser) expectOp(s string) error {
	if !p.isOp(s) {
		return fmt.Errorf("expected %q, got %q in %q", s, p.peek().s, p.src)
	}
	p.p++
	return nil
}

func ParseSpecExpr(src string) (*SX, error) {
	ts, err := lexSpec(src)
	if err != nil {
		return nil, err
	}
	p := &sparser{ts: ts, src: src}
	x, err := p.expr(0)
	if err != nil {
		return nil, err
	}
	if p.peek().k != "eof" {
		return nil, fmt.Errorf("trailing tokens at %q in %q", p.peek().s, src)
	}
	x.Src = src
	return x, nil
}

func ParseTypeX(src string) (*TypeX, error) {
	ts, err := lexSpec(src)
	if err != nil {
		return nil, err
	}
	p := &sparser{ts: ts, src: src}
	t, err := p.typ()
	if err != nil {
		return nil, err
	}
	if p.peek().k != "eof" {
		return nil, fmt.Errorf("trailing tokens in type %q", src)
	}
	return t, nil
}

func (p *sparser) typ() (*TypeX, error) {
	t := p.peek()
	switch {
	case t.k == "op" && t.s == "*":
		p.next()
		e, err := p.typ()
		if err != nil {
			return nil, err
		}
		return &TypeX{Kind: "ptr", Elem: e}, nil
	case t.k == "op" && t.s == "[]":
		p.next()
		e, err := p.typ()
		if err != nil {
			return nil, err
		}
		return &TypeX{Kind: "slice", Elem: e}, nil
	case t.k == "id" && (t.s == "map" || t.s == "arr"):
		p.next()
		if err := p.expectOp("["); err != nil {
			return nil, err
		}
		k, err := p.typ()
		if err != nil {
			return nil, err
		}
		if err := p.expectOp("]"); err != nil {
			return nil, err
		}
		e, err := p.typ()
		if err != nil {
			return nil, err
		}
		return &TypeX{Kind: t.s, Key: k, Elem: e}, nil
	case t.k == "id":
		p.next()
		if p.isOp(".") {
			p.next()
			n := p.next()
			if n.k != "id" {
				return nil, fmt.Errorf("bad qualified type in %q", p.src)
			}
			tx := &TypeX{Kind: "name", Pkg: t.s, Name: n.s}
			return p.typeArgs(tx)
		}
		return p.typeArgs(&TypeX{Kind: "name", Name: t.s})
	}
	return nil, fmt.Errorf("bad type at %q in %q", t.s, p.src)
}

// typeArgs parses an optional [T1, T2] instantiation after a type name.
func (p *sparser) typeArgs(tx *TypeX) (*TypeX, error) {
	if !p.isOp("[") {
		return tx, nil
	}
	// only treat as type arguments when followed by a type-looking token and closed by ] (not an index expression)
	save := p.p
	p.next()
	for {
		a, err := p.typ()
		if err != nil {
			p.p = save
			return tx, nil
		}
		tx.Args = append(tx.Args, a)
		if p.isOp(",") {
			p.next()
			continue
		}
		break
	}
	if !p.isOp("]") {
		p.p = save
		tx.Args = nil
		return tx, nil
	}
	p.next()
	return tx, nil
}

var binPrec = map[string]int{
	"<==>": 1, "==>": 2, "||": 3, "&&": 4,
	"==": 5, "!=": 5, "<": 5, "<=": 5, ">": 5, ">=": 5,
	"+": 6, "-": 6, "*": 7, "/": 7, "%": 7,
}

func (p *sparser) expr(minPrec int) (*SX, error) {
	lhs, err := p.unary()
	if err != nil {
		return nil, err
	}
	for {
		t := p.peek()
		if t.k == "op" && t.s == "?" && minPrec <= 0 {
			p.next()
			a, err := p.expr(0)
			if err != nil {
				return nil, err
			}
			if err := p.expectOp(":"); err != nil {
				return nil, err
			}
			b, err := p.expr(0)
			if err != nil {
				return nil, err
			}
			lhs = &SX{Op: "ite", Args: []*SX{lhs, a, b}}
			continue
		}
		if t.k != "op" {
			break
		}
		prec, ok := binPrec[t.s]
		if !ok || prec < minPrec {
			break
		}
		p.next()
		var rhs *SX
		if t.s == "==>" || t.s == "<==>" {
			rhs, err = p.expr(prec) // right assoc
		} else {
			rhs, err = p.expr(prec + 1)
		}
		if err != nil {
			return nil, err
		}
		lhs = &SX{Op: "bin", Name: t.s, Args: []*SX{lhs, rhs}}
	}
	return lhs, nil
}

func (p *sparser) unary() (*SX, error) {
	t := p.peek()
	if t.k == "op" && (t.s == "!" || t.s == "-") {
		p.next()
		x, err := p.unary()
		if err != nil {
			return nil, err
		}
		return &SX{Op: "un", Name: t.s, Args: []*SX{x}}, nil
	}
	if t.k == "id" && (t.s == "forall" || t.s == "exists") {
		p.next()
		var vs []QVar
		for {
			n := p.next()
			if n.k != "id" {
				return nil, fmt.Errorf("quantifier variable expected in %q", p.src)
			}
			ty, err := p.typ()
			if err != nil {
				return nil, err
			}
			vs = append(vs, QVar{n.s, ty})
			if p.isOp(",") {
				p.next()
				continue
			}
			break
		}
		if err := p.expectOp("::"); err != nil {
			return nil, err
		}
		var trig []*SX
		for p.isOp("{") {
			p.next()
			grp := &SX{Op: "trig"}
			for !p.isOp("}") {
				tx, err := p.expr(0)
				if err != nil {
					return nil, err
				}
				grp.Args = append(grp.Args, tx)
				if p.isOp(",") {
					p.next()
				}
			}
			p.next()
			trig = append(trig, grp)
		}
		body, err := p.expr(0)
		if err != nil {
			return nil, err
		}
		return &SX{Op: t.s, Vars: vs, Args: append([]*SX{body}, trig...)}, nil
	}
	return p.postfix()
}

func (p *sparser) postfix() (*SX, error) {
	x, err := p.primary()
	if err != nil {
		return nil, err
	}
	for {
		switch {
		case p.isOp("."):
			p.next()
			if p.isOp("(") {
				p.next()
				ty, err := p.typ()
				if err != nil {
					return nil, err
				}
				if err := p.expectOp(")"); err != nil {
					return nil, err
				}
				x = &SX{Op: "as", Type: ty, Args: []*SX{x}}
				continue
			}
			n := p.next()
			if n.k != "id" {
				return nil, fmt.Errorf("field name expected in %q", p.src)
			}
			x = &SX{Op: "sel", Name: n.s, Args: []*SX{x}}
		case p.isOp("["):
			p.next()
			i, err := p.expr(0)
			if err != nil {
				return nil, err
			}
			if err := p.expectOp("]"); err != nil {
				return nil, err
			}
			x = &SX{Op: "idx", Args: []*SX{x, i}}
		default:
			return x, nil
		}
	}
}

func (p *sparser) primary() (*SX, error) {
	t := p.next()
	switch t.k {
	case "int":
		return &SX{Op: "int", Name: t.s}, nil
	case "str":
		return &SX{Op: "str", Name: t.s}, nil
	case "id":
		switch t.s {
		case "true", "false":
			return &SX{Op: "bool", Name: t.s}, nil
		case "nil":
			return &SX{Op: "nil"}, nil
		}
		if p.isOp("(") {
			p.next()
			if t.s == "is" {
				a, err := p.expr(0)
				if err != nil {
					return nil, err
				}
				if err := p.expectOp(","); err != nil {
					return nil, err
				}
				ty, err := p.typ()
				if err != nil {
					return nil, err
				}
				if err := p.expectOp(")"); err != nil {
					return nil, err
				}
				return &SX{Op: "is", Type: ty, Args: []*SX{a}}, nil
			}
			var args []*SX
			for !p.isOp(")") {
				a, err := p.expr(0)
				if err != nil {
					return nil, err
				}
				args = append(args, a)
				if p.isOp(",") {
					p.next()
				} else {
					break
				}
			}
			if err := p.expectOp(")"); err != nil {
				return nil, err
			}
			if t.s == "old" {
				if len(args) != 1 {
					return nil, fmt.Errorf("old takes one argument in %q", p.src)
				}
				return &SX{Op: "old", Args: args}, nil
			}
			return &SX{Op: "call", Name: t.s, Args: args}, nil
		}
		return &SX{Op: "id", Name: t.s}, nil
	case "op":
		if t.s == "(" {
			x, err := p.expr(0)
			if err != nil {
				return nil, err
			}
			if err := p.expectOp(")"); err != nil {
				return nil, err
			}
			return x, nil
		}
	}
	return nil, fmt.Errorf("unexpected token %q in %q", t.s, p.src)
}
