package main

import "strings"

// Minimal s-expression reader used for trigger inference.

type sexp struct {
	atom string
	list []*sexp
}

func (s *sexp) String() string {
	if s.list == nil {
		return s.atom
	}
	var ps []string
	for _, c := range s.list {
		ps = append(ps, c.String())
	}
	return "(" + strings.Join(ps, " ") + ")"
}

func parseSexp(src string) *sexp {
	pos := 0
	var rd func() *sexp
	rd = func() *sexp {
		for pos < len(src) && (src[pos] == ' ' || src[pos] == '\n' || src[pos] == '\t') {
			pos++
		}
		if pos >= len(src) {
			return nil
		}
		if src[pos] == '(' {
			pos++
			n := &sexp{list: []*sexp{}}
			for {
				for pos < len(src) && (src[pos] == ' ' || src[pos] == '\n' || src[pos] == '\t') {
					pos++
				}
				if pos >= len(src) {
					return n
				}
				if src[pos] == ')' {
					pos++
					return n
				}
				c := rd()
				if c == nil {
					return n
				}
				n.list = append(n.list, c)
			}
		}
		st := pos
		for pos < len(src) && !strings.ContainsRune(" \n\t()", rune(src[pos])) {
			pos++
		}
		return &sexp{atom: src[st:pos]}
	}
	return rd()
}

var nonTriggerHeads = map[string]bool{"+": true, "-": true, "*": true, "/": true, "div": true, "mod": true, "abs": true,
	"<": true, "<=": true, ">": true, ">=": true, "=": true, "and": true, "or": true, "not": true, "=>": true, "ite": true,
	"to_real": true, "distinct": true, "forall": true, "exists": true, "let": true, "!": true, "imin": true, "imax": true, "store": true}

func (s *sexp) mentions(v string) bool {
	if s.list == nil {
		return s.atom == v
	}
	for _, c := range s.list {
		if c.mentions(v) {
			return true
		}
	}
	return false
}

// inferTriggers returns candidate single-term triggers for the bound variable v in body:
// applications f(...v...) where v is a direct argument and f is uninterpreted / select.
func inferTriggers(body string, v string, bound map[string]bool) []string {
	root := parseSexp(body)
	seen := map[string]bool{}
	var out []string
	var walk func(s *sexp, underBinder bool)
	walk = func(s *sexp, underBinder bool) {
		if s == nil || s.list == nil || len(s.list) == 0 {
			return
		}
		head := s.list[0]
		if head.list == nil && (head.atom == "forall" || head.atom == "exists" || head.atom == "let") {
			// do not pick triggers that mention inner bound variables
			return
		}
		if head.list == nil && !nonTriggerHeads[head.atom] {
			direct := false
			for _, a := range s.list[1:] {
				if a.list == nil && a.atom == v {
					direct = true
				}
			}
			if direct {
				ok := true
				for b := range bound {
					if b != v && s.mentions(b) {
						ok = false
					}
				}
				str := s.String()
				if ok && !seen[str] {
					seen[str] = true
					out = append(out, str)
				}
			}
		}
		for _, c := range s.list {
			walk(c, underBinder)
		}
	}
	walk(root, false)
	return out
}
