package main

// Calls: builtins, conversions, contracts (verified or assumed), function values, inlined literals.

import (
	"fmt"
	"go/ast"
	"go/token"
	"go/types"
	"strings"
)

var droppedPkgs = []string{
	"go.opentelemetry.io/otel",
	"github.com/formancehq/go-libs/v5/pkg/observe/log",
	"github.com/formancehq/go-libs/v4/logging",
	"github.com/logrusorgru/aurora",
}

// callThrough: higher-order helpers of the repository that run their function argument once (argument index).
var callThrough = map[string]int{
	"github.com/formancehq/ledger/internal/tracing.TraceWithMetric": 4,
	"github.com/formancehq/ledger/internal/tracing.Trace":           3,
}

func (fv *FV) isDropped(f *types.Func) bool {
	if f.Pkg() == nil {
		return false
	}
	path := f.Pkg().Path()
	for _, d := range droppedPkgs {
		if strings.HasPrefix(path, d) {
			return true
		}
	}
	if path == "fmt" && (strings.HasPrefix(f.Name(), "Print") || strings.HasPrefix(f.Name(), "Fprint")) {
		return true
	}
	return false
}

// reflectDerefArg recognises reflect.ValueOf(x).Elem().Interface() and returns x.
func (fv *FV) reflectDerefArg(call *ast.CallExpr) (ast.Expr, bool) {
	isMethod := func(e ast.Expr, name string) (*ast.CallExpr, bool) {
		c, ok := stripParens(e).(*ast.CallExpr)
		if !ok {
			return nil, false
		}
		sel, ok := stripParens(c.Fun).(*ast.SelectorExpr)
		if !ok || sel.Sel.Name != name {
			return nil, false
		}
		if f, ok := fv.info.ObjectOf(sel.Sel).(*types.Func); !ok || f.Pkg() == nil || f.Pkg().Path() != "reflect" {
			return nil, false
		}
		return c, true
	}
	c1, ok := isMethod(call, "Interface")
	if !ok || len(c1.Args) != 0 {
		return nil, false
	}
	c2, ok := isMethod(c1.Fun.(*ast.SelectorExpr).X, "Elem")
	if !ok || len(c2.Args) != 0 {
		return nil, false
	}
	c3, ok := isMethod(c2.Fun.(*ast.SelectorExpr).X, "ValueOf")
	if !ok || len(c3.Args) != 1 {
		return nil, false
	}
	return c3.Args[0], true
}

// evalReflectDeref models reflect.ValueOf(x).Elem().Interface() for x of an opaque interface sort: x must be non-nil
// and hold a pointer (Elem panics otherwise); the result holds the pointee, with the pointee's dynamic type. Only the
// pointer types already boxed into that interface sort in this run are known; for any other the obligation fails.
func (fv *FV) evalReflectDeref(st *State, call *ast.CallExpr, arg ast.Expr) Term {
	v := fv.evalExpr(st, arg)
	rs := fv.ss.Of(fv.info.TypeOf(call))
	r := fv.fresh("reflectElem", rs)
	if v.Sort.Kind != KOpaque || rs.Kind != KOpaque {
		fv.note("reflect.ValueOf(x).Elem().Interface() on a non-opaque interface value abstracted (result unconstrained)")
		return r
	}
	fv.assert(st, "reflect", tNot(tEq(v, Term{fv.ss.Zero(v.Sort), v.Sort})), call.Pos(), "reflect.Value.Elem on the zero Value (nil interface)")
	dt := fv.ss.DynTypeFn(v.Sort)
	var isPtr []Term
	for _, bp := range append([]boxPair(nil), fv.ss.boxPairs[v.Sort.Name]...) {
		if bp.from.Kind != KPtr || bp.from.Elem == nil || bp.goType == nil {
			continue
		}
		pt, ok := bp.goType.Underlying().(*types.Pointer)
		if !ok {
			continue
		}
		_, un := fv.ss.BoxFn(bp.from, v.Sort, bp.goType)
		fn, _ := fv.ss.BoxFn(bp.from.Elem, rs, pt.Elem())
		has := Term{sx("=", sx(dt, v.S), fv.ss.StrConst("type:"+bp.tname)), SBool}
		isPtr = append(isPtr, has)
		pv := Term{sx(un, v.S), bp.from}
		st.assume(tImp(has, tAnd(tNot(tEq(pv, ptrNil(bp.from))), tEq(r, Term{sx(fn, ptrDrf(pv).S), rs}))))
	}
	fv.assert(st, "reflect", tOr(isPtr...), call.Pos(), "reflect.Value.Elem: the interface holds a pointer (one of the pointer types stored into it)")
	return r
}

func (fv *FV) evalCall(st *State, call *ast.CallExpr) []Term {
	if arg, ok := fv.reflectDerefArg(call); ok {
		return []Term{fv.evalReflectDeref(st, call, arg)}
	}
	fun := stripParens(call.Fun)
	// conversion
	if tv, ok := fv.info.Types[fun]; ok && tv.IsType() {
		return []Term{fv.evalConversion(st, call, tv.Type)}
	}
	if ix, ok := fun.(*ast.IndexExpr); ok {
		if tv, ok := fv.info.Types[ix.X]; ok && !tv.IsType() {
			if _, isSig := tv.Type.Underlying().(*types.Signature); isSig {
				fun = stripParens(ix.X)
			}
		}
	}
	if ix, ok := fun.(*ast.IndexListExpr); ok {
		fun = stripParens(ix.X)
	}
	switch f := fun.(type) {
	case *ast.Ident:
		switch o := fv.info.ObjectOf(f).(type) {
		case *types.Builtin:
			return fv.evalBuiltin(st, call, o.Name())
		case *types.Func:
			return fv.callFunc(st, call, o, nil)
		case *types.Var:
			return fv.callFuncValue(st, call, f.Name, o)
		}
	case *ast.SelectorExpr:
		if sel := fv.info.Selections[f]; sel != nil {
			switch o := sel.Obj().(type) {
			case *types.Func:
				return fv.callFunc(st, call, o, f)
			case *types.Var:
				return fv.callFuncValue(st, call, f.Sel.Name, o)
			}
		} else if o, ok := fv.info.ObjectOf(f.Sel).(*types.Func); ok {
			return fv.callFunc(st, call, o, nil)
		} else if o, ok := fv.info.ObjectOf(f.Sel).(*types.Var); ok {
			return fv.callFuncValue(st, call, f.Sel.Name, o)
		}
	case *ast.FuncLit:
		return fv.inlineLit(st, f, call.Args, call.Pos())
	}
	fv.abort(call.Pos(), "unsupported call form %s", exprStr(fv, call.Fun))
	return nil
}

func (fv *FV) resultSorts(call *ast.CallExpr) ([]*Sort, []types.Type) {
	t := fv.info.TypeOf(call)
	var ss []*Sort
	var ts []types.Type
	switch tt := t.(type) {
	case *types.Tuple:
		for i := 0; i < tt.Len(); i++ {
			ss = append(ss, fv.ss.Of(tt.At(i).Type()))
			ts = append(ts, tt.At(i).Type())
		}
	case nil:
	default:
		if b, ok := t.(*types.Basic); ok && b.Kind() == types.Invalid {
			return nil, nil
		}
		ss = append(ss, fv.ss.Of(t))
		ts = append(ts, t)
	}
	return ss, ts
}

func (fv *FV) freshResults(st *State, call *ast.CallExpr, hint string) []Term {
	ss, ts := fv.resultSorts(call)
	var rs []Term
	for i, so := range ss {
		r := fv.fresh(hint, so)
		if isUnsigned(ts[i]) {
			st.assume(T(sx(">=", r.S, "0"), SBool))
		}
		rs = append(rs, r)
	}
	return rs
}

func (fv *FV) evalArgs(st *State, call *ast.CallExpr, sig *types.Signature) []Term {
	var args []Term
	np := sig.Params().Len()
	for i, a := range call.Args {
		v := fv.evalExpr(st, a)
		var pt types.Type
		if sig.Variadic() && i >= np-1 {
			if call.Ellipsis.IsValid() {
				pt = sig.Params().At(np - 1).Type()
			} else {
				pt = sig.Params().At(np - 1).Type().(*types.Slice).Elem()
			}
		} else if i < np {
			pt = sig.Params().At(i).Type()
		}
		if pt != nil {
			if _, isTP := pt.(*types.TypeParam); !isTP {
				if at := fv.info.TypeOf(a); at != nil && fv.ss.Of(pt) != v.Sort {
					v = fv.convertTo(st, v, at, pt, a.Pos())
				}
			}
		}
		args = append(args, fv.bind(st, v, "arg"))
	}
	return args
}

func (fv *FV) callFunc(st *State, call *ast.CallExpr, callee *types.Func, sel *ast.SelectorExpr) []Term {
	key := funcKey(callee)
	sig := callee.Type().(*types.Signature)
	if isig, ok := fv.info.TypeOf(call.Fun).(*types.Signature); ok && isig != nil {
		sig = isig // instantiated signature of generic functions
	}
	if fc := fv.p.Contracts[key]; fc != nil {
		return fv.applyContract(st, call, fc, sel, sig)
	}
	if idx, ok := callThrough[key]; ok && idx < len(call.Args) {
		if lit, ok := stripParens(call.Args[idx]).(*ast.FuncLit); ok {
			for i, a := range call.Args {
				if i != idx {
					fv.evalExprLoose(st, a)
				}
			}
			fv.note("ASSUMED call-through: " + key + " calls its function argument exactly once and returns its results")
			// the literal receives a context as its only argument
			var fake []ast.Expr
			if lit.Type.Params != nil && len(lit.Type.Params.List) == 1 && len(call.Args) > 0 {
				fake = []ast.Expr{call.Args[0]}
			}
			return fv.inlineLit(st, lit, fake, call.Pos())
		}
	}
	if rs, ok := fv.applyModel(st, call, callee, sel); ok {
		return rs
	}
	if rs, ok := fv.constDispatch(st, call, callee, sel); ok {
		return rs
	}
	if fv.isDropped(callee) {
		for _, a := range call.Args {
			fv.evalExprLoose(st, a)
		}
		if sel != nil && fv.info.Selections[sel] != nil {
			fv.evalExprLoose(st, sel.X)
		}
		fv.note("dropped (no effect on verified state): " + callee.FullName())
		return fv.freshResults(st, call, "drop")
	}
	// unknown callee
	if sel != nil && fv.info.Selections[sel] != nil {
		fv.evalExpr(st, sel.X)
	}
	fv.evalArgs(st, call, sig)
	fv.note("uninterpreted call (results unconstrained; ASSUMED not to modify its arguments or ghost state): " + callee.FullName())
	return fv.freshResults(st, call, callee.Name())
}

// applyContract: assert requires, havoc modifies, assume ensures.
func (fv *FV) applyContract(st *State, call *ast.CallExpr, fc *FuncContract, sel *ast.SelectorExpr, sig *types.Signature) []Term {
	pre := map[string]Term{}
	paths := map[string]*Path{}
	// The receiver is read AFTER the arguments have been evaluated when it is a location (m.repay(pop(m)): the callee
	// sees the pointee as the argument evaluation left it; pointers are modelled as the value they point to).
	evalRecv := func() {
		if sel != nil && fv.info.Selections[sel] != nil && fc.RecvName != "" && fc.RecvName != "_" {
			rsel := fv.info.Selections[sel]
			var rv Term
			var rp *Path
			if fv.isPathExpr(sel.X) {
				rp = fv.lvalue(st, sel.X)
				rp = fv.extendSelection(rp, rsel, sel.Pos(), len(rsel.Index())-1)
				rv = fv.readPath(st, rp, false)
			} else {
				rv = fv.evalExpr(st, sel.X)
			}
			// adapt receiver to the declared receiver type
			if rt := fc.Obj.Type().(*types.Signature).Recv(); rt != nil {
				want := fv.ss.Of(rt.Type())
				// method of an instantiated generic type: the receiver has the instantiated type (ResourceQuery[any], not ResourceQuery[Opts])
				if inst, ok := rsel.Obj().(*types.Func); ok {
					if isig, ok := inst.Type().(*types.Signature); ok && isig.Recv() != nil {
						want = fv.ss.Of(isig.Recv().Type())
					}
				}
				if want != rv.Sort {
					switch {
					case want.Kind == KPtr && want.Elem == rv.Sort:
						rv = ptrMk(want, rv) // auto address-of; write back below
					case rv.Sort.Kind == KPtr && rv.Sort.Elem == want:
						fv.assert(st, "nil-deref", tNot(tEq(rv, ptrNil(rv.Sort))), sel.Pos(), "method call through nil pointer")
						rv = ptrDrf(rv)
						rp = nil
					case want == SBig && rv.Sort == SInt:
						rv = bigMk(rv)
					case rv.Sort == SBig && want == SInt:
						fv.assert(st, "nil-deref", tNot(tEq(rv, T("bnil", SBig))), sel.Pos(), "method call through nil pointer")
						rv = bigVal(rv)
						rp = nil
					case want.Kind == KPtr && rv.Sort.Kind == KOpaque && fv.refPtr(rv.Sort) == want:
						// receiver reached through a recursive reference: box its current pointee (updates are not written back)
						rv = tIte(tEq(rv, Term{fv.ss.Zero(rv.Sort), rv.Sort}), ptrNil(want), ptrMk(want, Term{sx("deref_"+rv.Sort.Name, rv.S), want.Elem}))
						rp = nil
						fv.note("method call through a recursive pointer field: modifications of the pointee are not written back (no heap model)")
					case want.Kind == KOpaque || want.Kind == KSum || want.Kind == KErr:
						rv = fv.box(st, rv, fv.info.TypeOf(sel.X), want, sel.Pos())
					default:
						fv.abort(sel.Pos(), "receiver sort %s does not match %s", rv.Sort.Name, want.Name)
					}
				}
			}
			pre[fc.RecvName] = fv.bind(st, rv, "recv")
			if rp != nil {
				paths[fc.RecvName] = rp
			}
		}
	}
	recvIsPath := sel != nil && fv.info.Selections[sel] != nil && fv.isPathExpr(sel.X)
	if !recvIsPath {
		evalRecv()
	}
	for i, a := range call.Args {
		if i >= len(fc.Params) {
			break
		}
		if fv.isPathExpr(a) {
			paths[fc.Params[i]] = fv.lvalue(st, a)
		} else if u, ok := stripParens(a).(*ast.UnaryExpr); ok && u.Op == token.AND && fv.isPathExpr(stripParens(u.X)) {
			paths[fc.Params[i]] = fv.lvalue(st, stripParens(u.X)) // &x: the callee may modify x
		}
	}
	for i, a := range call.Args {
		if lit, ok := stripParens(a).(*ast.FuncLit); ok {
			ord := fv.litOrdinal(lit)
			pname := "?"
			if i < len(fc.Params) {
				pname = fc.Params[i]
			}
			if fv.fc.Lits[ord] != nil {
				fv.note("function literal " + ord + " handed to " + fv.p.funcDisplayName(fc) + " as " + pname + ": verified against its own `lit " + ord + "` contract; that this contract refines the callee's fnparam contract is by inspection")
			} else {
				fv.note("ASSUMED function literal " + ord + " handed to " + fv.p.funcDisplayName(fc) + " as " + pname + " satisfies the callee's fnparam contract; its body is not examined here and its writes to captured variables are not modelled")
			}
		}
	}
	args := fv.evalArgs(st, call, sig)
	if recvIsPath {
		evalRecv()
	}
	if sig.Variadic() && !call.Ellipsis.IsValid() {
		// pack variadic arguments into a slice
		np := sig.Params().Len()
		so := fv.ss.Of(sig.Params().At(np - 1).Type())
		arr := "((as const (Array Int " + so.Elem.Name + ")) " + fv.ss.Zero(so.Elem) + ")"
		n := 0
		for i := np - 1; i < len(args); i++ {
			arr = sx("store", arr, tInt(int64(n)).S, args[i].S)
			n++
		}
		packed := mkSlice(so, arr, tInt(int64(n)).S, tBool(n == 0).S)
		args = append(args[:np-1:np-1], fv.bind(st, packed, "varargs"))
	}
	for i, pn := range fc.Params {
		if i < len(args) {
			pre[pn] = args[i]
		}
	}
	ghostPre := map[string]Term{}
	for g, t := range st.ghost {
		ghostPre[g] = t
	}
	// type arguments of a generic callee
	var typeArgs map[string]types.Type
	// type arguments of the receiver of a method of a generic type
	if sel != nil && fv.info.Selections[sel] != nil {
		if osig, ok := fc.Obj.Type().(*types.Signature); ok && osig.Recv() != nil {
			ot := osig.Recv().Type()
			if p, ok := ot.(*types.Pointer); ok {
				ot = p.Elem()
			}
			if on, ok := ot.(*types.Named); ok && on.TypeArgs() != nil && on.TypeArgs().Len() > 0 {
				if inst, ok := fv.info.Selections[sel].Obj().(*types.Func); ok {
					if isig, ok := inst.Type().(*types.Signature); ok && isig.Recv() != nil {
						it := isig.Recv().Type()
						if p, ok := it.(*types.Pointer); ok {
							it = p.Elem()
						}
						if in, ok := it.(*types.Named); ok && in.TypeArgs() != nil && in.TypeArgs().Len() == on.TypeArgs().Len() {
							typeArgs = map[string]types.Type{}
							for i := 0; i < on.TypeArgs().Len(); i++ {
								if tp, ok := on.TypeArgs().At(i).(*types.TypeParam); ok {
									typeArgs[tp.Obj().Name()] = in.TypeArgs().At(i)
								}
							}
						}
					}
				}
			}
		}
	}
	if osig, ok := fc.Obj.Type().(*types.Signature); ok && osig.TypeParams() != nil && osig.TypeParams().Len() > 0 {
		var id *ast.Ident
		switch f := stripParens(call.Fun).(type) {
		case *ast.IndexExpr:
			id, _ = stripParens(f.X).(*ast.Ident)
			if se, ok := stripParens(f.X).(*ast.SelectorExpr); ok {
				id = se.Sel
			}
		case *ast.IndexListExpr:
			id, _ = stripParens(f.X).(*ast.Ident)
			if se, ok := stripParens(f.X).(*ast.SelectorExpr); ok {
				id = se.Sel
			}
		case *ast.Ident:
			id = f
		case *ast.SelectorExpr:
			id = f.Sel
		}
		if id != nil {
			if inst, ok := fv.info.Instances[id]; ok && inst.TypeArgs != nil {
				typeArgs = map[string]types.Type{}
				for i := 0; i < osig.TypeParams().Len() && i < inst.TypeArgs.Len(); i++ {
					typeArgs[osig.TypeParams().At(i).Obj().Name()] = inst.TypeArgs.At(i)
				}
			}
		}
	}
	mkEnv := func(post map[string]Term, results []Term) *SpecEnv {
		env := &SpecEnv{reg: fv.reg, pk: fc.Pkg, bound: map[string]Term{}, typeArgs: typeArgs}
		env.lookup = func(name string, old bool) (Term, bool) {
			if results != nil {
				for i, rn := range fc.Results {
					if rn == name && rn != "_" {
						return results[i], true
					}
				}
			}
			if _, ok := fv.reg.ghosts[name]; ok {
				if old || post == nil {
					return ghostPre[name], true
				}
				return st.ghost[name], true
			}
			if !old && post != nil {
				if t, ok := post[name]; ok {
					return t, true
				}
			}
			if t, ok := pre[name]; ok {
				return t, true
			}
			if strings.Contains(name, ".") {
				return fv.lookupGlobal(fc.Pkg, name)
			}
			if fc.Pkg != nil && fc.Pkg.Types != nil {
				if v, ok := fc.Pkg.Types.Scope().Lookup(name).(*types.Var); ok {
					return fv.globalVar(v), true
				}
			}
			return Term{}, false
		}
		return env
	}
	// requires
	for _, c := range fc.Requires {
		t, err := mkEnv(nil, nil).EvalBool(c.X)
		if err != nil {
			fv.abort(call.Pos(), "requires %q of %s: %v", c.Text, fc.Name, err)
		}
		fv.assert(st, "pre:"+fc.Name, t, call.Pos(), c.Text)
	}
	// havoc
	post := map[string]Term{}
	for _, m := range fc.Modifies {
		if g, ok := fv.reg.ghosts[m]; ok {
			st.ghost[m] = fv.fresh(m, g.Sort)
			continue
		}
		old, ok := pre[m]
		if !ok {
			fv.abort(call.Pos(), "modifies %s of %s: no such parameter", m, fc.Name)
		}
		post[m] = fv.fresh(m+"_post", old.Sort)
		if old.Sort.Kind == KPtr {
			st.assume(tEq(tEq(post[m], ptrNil(old.Sort)), tEq(old, ptrNil(old.Sort))))
		}
	}
	var results []Term
	for i := 0; i < sig.Results().Len(); i++ {
		so := fv.ss.Of(sig.Results().At(i).Type())
		// generic results are instantiated at the call site
		if _, isTP := sig.Results().At(i).Type().(*types.TypeParam); isTP || strings.Contains(sig.Results().At(i).Type().String(), "TP_") {
			ss, _ := fv.resultSorts(call)
			so = ss[i]
		} else if cs, _ := fv.resultSorts(call); len(cs) == sig.Results().Len() {
			so = cs[i]
		}
		r := fv.fresh(fc.Name+"_"+fc.Results[i], so)
		if isUnsigned(sig.Results().At(i).Type()) {
			st.assume(T(sx(">=", r.S, "0"), SBool))
		}
		results = append(results, r)
	}
	// ensures
	for _, c := range fc.Ensures {
		t, err := mkEnv(post, results).EvalBool(c.X)
		if err != nil {
			fv.abort(call.Pos(), "ensures %q of %s: %v", c.Text, fc.Name, err)
		}
		st.assume(t)
	}
	// write back modified parameters
	for _, m := range sortedKeys(post) {
		nv := post[m]
		p := paths[m]
		if p == nil {
			fv.note("modified argument of " + fc.Name + " is not a location; the update is lost: " + m)
			continue
		}
		cur := fv.readPath(st, p, true)
		if rp := fv.resolveAlias(st, p); rp.Ghost == "" && len(rp.Steps) == 0 && (cur.Sort.Kind == KMap || cur.Sort.Kind == KPtr) {
			if at, ok := st.escaped[rp.Root]; ok {
				fv.assert(st, "alias-mutation", tBool(false), call.Pos(), "the object held by "+rp.Root.Name()+" was stored elsewhere at "+fv.posStr(at)+" and is mutated by "+fc.Name+" afterwards")
			}
		}
		switch {
		case cur.Sort == nv.Sort:
			fv.writePath(st, p, nv, call.Pos())
		case nv.Sort.Kind == KPtr && nv.Sort.Elem == cur.Sort:
			fv.writePath(st, p, ptrDrf(nv), call.Pos())
		default:
			fv.abort(call.Pos(), "cannot write back %s of sort %s into location of sort %s", m, nv.Sort.Name, cur.Sort.Name)
		}
	}
	if fc.Assumed {
		fv.assumedUsed[funcKey(fc.Obj)] = true
	} else {
		fv.calleesUsed[funcKey(fc.Obj)] = true
	}
	return results
}

func (fv *FV) refPtr(ref *Sort) *Sort {
	_, p := fv.ss.RefTarget(ref)
	return p
}

// callFuncValue: call of a function-typed variable/field.
func (fv *FV) callFuncValue(st *State, call *ast.CallExpr, name string, obj *types.Var) []Term {
	sig, _ := obj.Type().Underlying().(*types.Signature)
	if sig == nil {
		fv.abort(call.Pos(), "call of non-function value %s", name)
	}
	fp := fv.fc.FnParams[name]
	fnVal := Term{}
	if fv.isPathExpr(call.Fun) {
		fnVal = fv.readPath(st, fv.lvalue(st, call.Fun), false)
	}
	args := fv.evalArgs(st, call, sig)
	if fp == nil {
		fv.note("call of function value without fnparam contract (results unconstrained): " + name)
		return fv.freshResults(st, call, name)
	}
	pre := map[string]Term{"$fn": fnVal}
	for i, pn := range fp.Params {
		if i < len(args) {
			pre[pn] = args[i]
		}
	}
	ghostPre := map[string]Term{}
	for g, t := range st.ghost {
		ghostPre[g] = t
	}
	results := fv.freshResults(st, call, name)
	mkEnv := func(postPhase bool) *SpecEnv {
		env := fv.specEnv(st, call.Pos(), nil, false)
		base := env.lookup
		env.lookup = func(n string, old bool) (Term, bool) {
			if n == "self" && fnVal.Sort != nil {
				return fnVal, true
			}
			if postPhase {
				for i, rn := range fp.Results {
					if rn == n && i < len(results) {
						return results[i], true
					}
				}
			}
			if t, ok := pre[n]; ok {
				return t, true
			}
			if _, ok := fv.reg.ghosts[n]; ok {
				if old || !postPhase {
					return ghostPre[n], true
				}
				return st.ghost[n], true
			}
			return base(n, false)
		}
		return env
	}
	for _, c := range fp.Requires {
		t, err := mkEnv(false).EvalBool(c.X)
		if err != nil {
			fv.abort(call.Pos(), "fnparam %s requires %q: %v", name, c.Text, err)
		}
		fv.assert(st, "pre:"+name, t, call.Pos(), c.Text)
	}
	for _, m := range fp.Modifies {
		if g, ok := fv.reg.ghosts[m]; ok {
			st.ghost[m] = fv.fresh(m, g.Sort)
		}
	}
	for _, c := range fp.Ensures {
		t, err := mkEnv(true).EvalBool(c.X)
		if err != nil {
			fv.abort(call.Pos(), "fnparam %s ensures %q: %v", name, c.Text, err)
		}
		st.assume(t)
	}
	return results
}

// inlineLit executes a function literal in place (used for `defer func(){...}()` and immediate calls).
func (fv *FV) inlineLit(st *State, lit *ast.FuncLit, argExprs []ast.Expr, pos token.Pos) []Term {
	if fv.inlineDepth > 3 {
		fv.abort(pos, "function literal nesting too deep")
	}
	sig := fv.info.TypeOf(lit).(*types.Signature)
	var args []Term
	for _, a := range argExprs {
		args = append(args, fv.evalExpr(st, a))
	}
	i := 0
	for _, f := range lit.Type.Params.List {
		for _, n := range f.Names {
			if obj := fv.info.Defs[n]; obj != nil && i < len(args) {
				st.vars[obj] = args[i]
			}
			i++
		}
	}
	// single-path inlining: the literal must have one exit state per path; we merge by requiring
	// that the body contains no return with values unless it is the last statement.
	var out []Term
	var final *State
	count := 0
	fv.inlineDepth++
	saveSig, saveRes := fv.curSig, fv.curResObjs
	fv.curSig = sig
	fv.curResObjs = nil
	ctl := &Ctl{brk: map[string]Kont{}, cont: map[string]Kont{}}
	ctl.ret = func(s2 *State, vals []Term) {
		count++
		final = s2
		out = vals
	}
	fv.execBlock(st.clone(), lit.Body.List, ctl, func(s2 *State) { ctl.ret(s2, nil) })
	fv.curSig, fv.curResObjs = saveSig, saveRes
	fv.inlineDepth--
	if count != 1 {
		fv.abort(pos, "inlined function literal has %d exit paths (only straight-line literals are inlined)", count)
	}
	*st = *final
	return out
}

func (fv *FV) evalConversion(st *State, call *ast.CallExpr, to types.Type) Term {
	if len(call.Args) != 1 {
		fv.abort(call.Pos(), "conversion with %d arguments", len(call.Args))
	}
	arg := call.Args[0]
	from := fv.info.TypeOf(arg)
	v := fv.evalExpr(st, arg)
	tso := fv.ss.Of(to)
	if v.Sort == tso {
		// integer narrowing
		if v.Sort == SInt {
			flo, fhi, ok1 := intRange(from)
			tlo, thi, ok2 := intRange(to)
			if ok1 && ok2 && (flo != tlo || fhi != thi) {
				fb := from.Underlying().(*types.Basic)
				tb := to.Underlying().(*types.Basic)
				narrowing := sizeOf(tb) < sizeOf(fb) || (fb.Info()&types.IsUnsigned == 0 && tb.Info()&types.IsUnsigned != 0)
				if narrowing || fv.fc.Opts["overflow"] == "on" {
					fv.assert(st, "int-conv", tAnd(T(sx("<=", tlo, v.S), SBool), T(sx("<=", v.S, thi), SBool)), call.Pos(), "integer conversion preserves the value: "+exprStr(fv, call))
				}
			}
		}
		return v
	}
	if b, ok := to.Underlying().(*types.Basic); ok && b.Info()&types.IsFloat != 0 {
		fv.note("float conversion abstracted")
		return fv.fresh("float", tso)
	}
	if v.Sort.Kind == KOpaque && tso == SInt {
		fv.note("conversion from float to integer abstracted (result unconstrained)")
		return fv.fresh("fromfloat", SInt)
	}
	if tso.Kind == KSum || tso.Kind == KErr || tso.Kind == KOpaque || tso.Kind == KFn {
		return fv.box(st, v, from, tso, call.Pos())
	}
	if tso.Kind == KSlice && v.Sort == SStr || tso == SStr && v.Sort.Kind == KSlice {
		// []byte(s) / string(b): abstracted to an uninterpreted, deterministic pair with string([]byte(s)) == s
		bs := tso
		if tso == SStr {
			bs = v.Sort
		}
		fn := "bytes2str_" + bs.Name
		fv.ss.ensureDecl(fn, fmt.Sprintf("(declare-fun %s (%s) Str)", fn, bs.Name))
		fv.note("string/bytes conversion abstracted (uninterpreted, string([]byte(s)) == s)")
		if tso == SStr {
			return T(sx(fn, v.S), SStr)
		}
		r := fv.fresh("conv", tso)
		st.assume(tEq(T(sx(fn, r.S), SStr), v))
		return r
	}
	fv.abort(call.Pos(), "unsupported conversion from %s to %s", from, to)
	return Term{}
}

func sizeOf(b *types.Basic) int {
	switch b.Kind() {
	case types.Int8, types.Uint8:
		return 1
	case types.Int16, types.Uint16:
		return 2
	case types.Int32, types.Uint32:
		return 4
	}
	return 8
}

// constDispatch: a call of an interface method on a closed-sum interface value where every implementing type declares
// the method as `return <constant>` (e.g. Value.GetType) is the case distinction over the dynamic type. The bodies are
// read from the loaded source on every run; an implementation of any other shape makes this model inapplicable.
func (fv *FV) constDispatch(st *State, call *ast.CallExpr, callee *types.Func, sel *ast.SelectorExpr) ([]Term, bool) {
	if sel == nil || len(call.Args) != 0 {
		return nil, false
	}
	rsel := fv.info.Selections[sel]
	if rsel == nil {
		return nil, false
	}
	rt := rsel.Recv()
	if _, isIface := rt.Underlying().(*types.Interface); !isIface {
		return nil, false
	}
	so := fv.ss.Of(rt)
	if so.Kind != KSum || len(so.Ctors) == 0 {
		return nil, false
	}
	rss, _ := fv.resultSorts(call)
	if len(rss) != 1 {
		return nil, false
	}
	var consts []Term
	for _, c := range so.Ctors {
		ms := types.NewMethodSet(c.GoType)
		m := ms.Lookup(callee.Pkg(), callee.Name())
		if m == nil {
			return nil, false
		}
		mf, ok := m.Obj().(*types.Func)
		if !ok {
			return nil, false
		}
		dp := fv.p.AllPkgs[pkgPathOf(mf)]
		if dp == nil || dp.TypesInfo == nil {
			return nil, false
		}
		var body *ast.BlockStmt
		for _, f := range dp.Syntax {
			for _, d := range f.Decls {
				if fdl, ok := d.(*ast.FuncDecl); ok && dp.TypesInfo.Defs[fdl.Name] == mf.Origin() {
					body = fdl.Body
				}
			}
		}
		if body == nil || len(body.List) != 1 {
			return nil, false
		}
		ret, ok := body.List[0].(*ast.ReturnStmt)
		if !ok || len(ret.Results) != 1 {
			return nil, false
		}
		tv, ok := dp.TypesInfo.Types[ret.Results[0]]
		if !ok || tv.Value == nil {
			return nil, false
		}
		ct, ok := fv.constTerm(tv, call.Pos())
		if !ok || ct.Sort != rss[0] {
			return nil, false
		}
		consts = append(consts, ct)
	}
	recv := fv.bind(st, fv.evalExpr(st, sel.X), "recv")
	fv.assert(st, "nil-deref", tNot(tEq(recv, Term{fv.ss.Zero(so), so})), call.Pos(), "method call on nil interface value")
	res := consts[len(consts)-1]
	for i := len(so.Ctors) - 2; i >= 0; i-- {
		res = tIte(T(sx(so.Ctors[i].Tester, recv.S), SBool), consts[i], res)
	}
	fv.note("interface method " + callee.FullName() + " dispatched over the closed sum of implementations (each returns a constant)")
	return []Term{fv.bind(st, res, callee.Name())}, true
}


// litOrdinal: the 1-based source-order ordinal of a function literal inside the function under verification.
func (fv *FV) litOrdinal(lit *ast.FuncLit) string {
	n, found := 0, ""
	if fv.fc.Decl != nil && fv.fc.Decl.Body != nil {
		ast.Inspect(fv.fc.Decl.Body, func(nd ast.Node) bool {
			if fl, ok := nd.(*ast.FuncLit); ok {
				n++
				if fl == lit {
					found = fmt.Sprint(n)
				}
			}
			return true
		})
	}
	return found
}
