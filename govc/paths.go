package main

// Lvalue paths: reading and functional update of nested values.

import (
	"fmt"
	"go/ast"
	"go/token"
	"go/types"
	"strings"
)

func (fv *FV) rootTerm(st *State, p *Path) (Term, []PathStep) {
	if p.Ghost != "" {
		return st.ghost[p.Ghost], p.Steps
	}
	if a := st.alias[p.Root]; a != nil {
		// expand alias
		steps := append(append([]PathStep{}, a.Steps...), p.Steps...)
		return fv.rootTerm(st, &Path{Root: a.Root, Ghost: a.Ghost, Steps: steps})
	}
	return fv.readVar(st, p.Root), p.Steps
}

func (fv *FV) resolveAlias(st *State, p *Path) *Path {
	if p.Ghost != "" {
		return p
	}
	if a := st.alias[p.Root]; a != nil {
		steps := append(append([]PathStep{}, a.Steps...), p.Steps...)
		return fv.resolveAlias(st, &Path{Root: a.Root, Ghost: a.Ghost, Steps: steps})
	}
	return p
}

// readPath evaluates a path. If quiet, no safety obligations are produced (used for re-reading).
func (fv *FV) readPath(st *State, p *Path, quiet bool) Term {
	cur, steps := fv.rootTerm(st, p)
	for _, s := range steps {
		cur = fv.stepRead(st, cur, s, quiet)
	}
	return cur
}

func (fv *FV) stepRead(st *State, cur Term, s PathStep, quiet bool) Term {
	switch s.Kind {
	case StDeref:
		switch cur.Sort.Kind {
		case KPtr:
			if !quiet {
				fv.assert(st, "nil-deref", tNot(tEq(cur, ptrNil(cur.Sort))), s.Pos, "pointer dereference")
			}
			return ptrDrf(cur)
		case KBig:
			if !quiet {
				fv.assert(st, "nil-deref", tNot(tEq(cur, T("bnil", SBig))), s.Pos, "big integer dereference")
			}
			return bigVal(cur)
		case KOpaque:
			// recursive reference: uninterpreted (read-only) deref
			if tgt, _ := fv.ss.RefTarget(cur.Sort); tgt != nil {
				if !quiet {
					fv.assert(st, "nil-deref", tNot(tEq(cur, Term{fv.ss.Zero(cur.Sort), cur.Sort})), s.Pos, "pointer dereference")
				}
				return Term{sx("deref_"+cur.Sort.Name, cur.S), tgt}
			}
			return cur
		}
		fv.abort(s.Pos, "dereference of sort %s", cur.Sort.Name)
	case StField:
		if cur.Sort.Kind == KOpaque && strings.HasPrefix(cur.Sort.Name, "U_Ref_") && cur.Sort.GoType != nil {
			// a struct value reached through a recursive occurrence of its own type (map[string]ChartSegment inside
			// ChartSegment): read-only unfolding by an uninterpreted function into the struct sort
			if _, isPtr := types.Unalias(cur.Sort.GoType).Underlying().(*types.Pointer); !isPtr {
				if tgt := fv.ss.Of(cur.Sort.GoType); tgt != nil && tgt.Kind == KStruct {
					fn := "unref_" + cur.Sort.Name
					fv.ss.ensureDecl(fn, fmt.Sprintf("(declare-fun %s (%s) %s)", fn, cur.Sort.Name, tgt.Name))
					cur = Term{sx(fn, cur.S), tgt}
				}
			}
		}
		if cur.Sort.Kind == KOpaque {
			fv.abort(s.Pos, "field %s of opaque sort %s", s.Field, cur.Sort.Name)
		}
		f := cur.Sort.FieldByName(s.Field)
		if f == nil {
			fv.abort(s.Pos, "no field %s in %s", s.Field, cur.Sort.Name)
		}
		return Term{sx(f.Acc, cur.S), f.Sort}
	case StIndex:
		if cur.Sort.Kind != KSlice {
			fv.abort(s.Pos, "index of sort %s", cur.Sort.Name)
		}
		if !quiet {
			fv.assert(st, "index", tAnd(T(sx("<=", "0", s.Key.S), SBool), T(sx("<", s.Key.S, slLen(cur).S), SBool)), s.Pos, "index in range")
		}
		r := slAt(cur, s.Key)
		for _, f := range fv.wfAll(r, 2) {
			st.assume(T(f, SBool))
		}
		return r
	case StMapKey:
		if cur.Sort.Kind != KMap {
			fv.abort(s.Pos, "map index of sort %s", cur.Sort.Name)
		}
		r := fv.ss.mpGet(cur, s.Key)
		for _, f := range fv.wfAll(r, 2) {
			st.assume(T(f, SBool))
		}
		return r
	}
	return cur
}

func (fv *FV) writePath(st *State, p *Path, v Term, pos token.Pos) {
	p = fv.resolveAlias(st, p)
	var root Term
	if p.Ghost != "" {
		root = st.ghost[p.Ghost]
	} else {
		if len(p.Steps) == 0 {
			st.vars[p.Root] = v
			return
		}
		root = fv.readVar(st, p.Root)
	}
	if p.Ghost == "" && !fv.quietUpdate {
		if at, ok := st.escaped[p.Root]; ok {
			fv.assert(st, "alias-mutation", tBool(false), pos, "the object held by "+p.Root.Name()+" was stored elsewhere at "+fv.posStr(at)+" and is mutated through the variable afterwards (the other holder sees the change; value semantics would be unsound)")
		}
	}
	nv := fv.update(st, root, p.Steps, v, pos)
	nv = fv.bind(st, nv, "u")
	if p.Ghost != "" {
		st.ghost[p.Ghost] = nv
	} else {
		st.vars[p.Root] = nv
	}
}

func (fv *FV) update(st *State, cur Term, steps []PathStep, v Term, pos token.Pos) Term {
	if fv.quietUpdate {
		saved := fv.obls
		defer func() { fv.obls = saved }()
	}
	if len(steps) == 0 {
		if v.Sort != cur.Sort {
			if c, ok := fv.coerceRef(v, cur.Sort); ok {
				return c
			}
			fv.abort(pos, "assignment of sort %s to location of sort %s", v.Sort.Name, cur.Sort.Name)
		}
		return v
	}
	s := steps[0]
	switch s.Kind {
	case StDeref:
		switch cur.Sort.Kind {
		case KPtr:
			fv.assert(st, "nil-deref", tNot(tEq(cur, ptrNil(cur.Sort))), s.Pos, "write through pointer")
			inner := fv.update(st, ptrDrf(cur), steps[1:], v, pos)
			return ptrMk(cur.Sort, inner)
		case KBig:
			inner := fv.update(st, bigVal(cur), steps[1:], v, pos)
			return bigMk(inner)
		}
		fv.abort(s.Pos, "write through sort %s", cur.Sort.Name)
	case StField:
		var parts []string
		found := false
		for _, f := range cur.Sort.Fields {
			ft := Term{sx(f.Acc, cur.S), f.Sort}
			if f.Name == s.Field {
				found = true
				parts = append(parts, fv.update(st, ft, steps[1:], v, pos).S)
			} else {
				parts = append(parts, ft.S)
			}
		}
		if !found {
			fv.abort(s.Pos, "no field %s in %s", s.Field, cur.Sort.Name)
		}
		return Term{sx(cur.Sort.Mk, parts...), cur.Sort}
	case StIndex:
		fv.assert(st, "index", tAnd(T(sx("<=", "0", s.Key.S), SBool), T(sx("<", s.Key.S, slLen(cur).S), SBool)), s.Pos, "index in range (store)")
		inner := fv.update(st, slAt(cur, s.Key), steps[1:], v, pos)
		return mkSlice(cur.Sort, sx("store", slArr(cur).S, s.Key.S, inner.S), slLen(cur).S, slNil(cur).S)
	case StMapKey:
		if len(steps) == 1 {
			fv.assert(st, "nil-map-write", tNot(mpNil(cur)), s.Pos, "assignment to entry in nil map")
			return mkMap(cur.Sort, sx("store", mpDom(cur), s.Key.S, "true"), sx("store", mpVal(cur), s.Key.S, v.S), "false")
		}
		inner := fv.update(st, fv.ss.mpGet(cur, s.Key), steps[1:], v, pos)
		// writing inside an element that is itself a reference (map / pointer): the outer domain is unchanged
		return mkMap(cur.Sort, mpDom(cur), sx("store", mpVal(cur), s.Key.S, inner.S), mpNil(cur).S)
	}
	return cur
}

// lvalue builds the path denoted by an addressable expression (evaluating index/key subexpressions).
func (fv *FV) lvalue(st *State, e ast.Expr) *Path {
	switch x := e.(type) {
	case *ast.ParenExpr:
		return fv.lvalue(st, x.X)
	case *ast.Ident:
		obj := fv.info.ObjectOf(x)
		if obj == nil {
			fv.abort(x.Pos(), "unresolved identifier %s", x.Name)
		}
		return &Path{Root: obj}
	case *ast.StarExpr:
		p := fv.lvalue(st, x.X)
		return extend(p, PathStep{Kind: StDeref, Pos: x.Pos()})
	case *ast.SelectorExpr:
		sel := fv.info.Selections[x]
		if sel == nil {
			// qualified identifier (package-level var)
			obj := fv.info.ObjectOf(x.Sel)
			return &Path{Root: obj}
		}
		p := fv.lvalue(st, x.X)
		return fv.extendSelection(p, sel, x.Pos(), len(sel.Index()))
	case *ast.IndexExpr:
		bt := fv.info.TypeOf(x.X)
		p := fv.lvalue(st, x.X)
		if pt, ok := bt.Underlying().(*types.Pointer); ok { // pointer to array
			_ = pt
			p = extend(p, PathStep{Kind: StDeref, Pos: x.Pos()})
		}
		k := fv.evalExpr(st, x.Index)
		if _, ok := coreType(bt).(*types.Map); ok {
			return extend(p, PathStep{Kind: StMapKey, Key: fv.bind(st, k, "k"), Pos: x.Pos()})
		}
		return extend(p, PathStep{Kind: StIndex, Key: fv.bind(st, k, "i"), Pos: x.Pos()})
	}
	return nil
}

func coreType(t types.Type) types.Type {
	if t == nil {
		return nil
	}
	u := t.Underlying()
	if p, ok := u.(*types.Pointer); ok {
		return p.Elem().Underlying()
	}
	return u
}

func extend(p *Path, s PathStep) *Path {
	if p == nil {
		return nil
	}
	steps := append(append([]PathStep{}, p.Steps...), s)
	return &Path{Root: p.Root, Ghost: p.Ghost, Steps: steps}
}

// extendSelection walks the first n indices of a field selection, inserting dereferences.
func (fv *FV) extendSelection(p *Path, sel *types.Selection, pos token.Pos, n int) *Path {
	if p == nil {
		return nil
	}
	t := sel.Recv()
	idx := sel.Index()
	for i := 0; i < n; i++ {
		if pt, ok := types.Unalias(t).Underlying().(*types.Pointer); ok {
			p = extend(p, PathStep{Kind: StDeref, Pos: pos})
			t = pt.Elem()
		}
		st, ok := types.Unalias(t).Underlying().(*types.Struct)
		if !ok {
			fv.abort(pos, "selection through non-struct %s", t)
		}
		f := st.Field(idx[i])
		if so := fv.ss.Of(t); so.Kind == KOpaque && f.Embedded() && fv.ss.Of(f.Type()) == so {
			// an opaque wrapper struct around an embedded value of the same opaque sort (go-libs time.Time embeds
			// time.Time; both are one uninterpreted sort): the promoted method sees the wrapper value itself
			t = f.Type()
			continue
		}
		p = extend(p, PathStep{Kind: StField, Field: f.Name(), Pos: pos})
		t = f.Type()
	}
	return p
}
