package main

// VC emission and solver race.

import (
	"context"
	"fmt"
	"os"
	"os/exec"
	"path/filepath"
	"regexp"
	"strings"
	"sync"
	"sync/atomic"
	"time"
)

var failures atomic.Int64
var failuresByFunc sync.Map // per function: once several obligations of a function failed, the rest get a short timeout

var symRe = regexp.MustCompile(`[A-Za-z_$][A-Za-z0-9_$!]*`)

type Emitter struct {
	ss  *Sorts
	reg *SpecReg
}

func symbolsOf(texts ...string) map[string]bool {
	m := map[string]bool{}
	for _, t := range texts {
		for _, s := range symRe.FindAllString(t, -1) {
			m[s] = true
		}
	}
	return m
}

var scriptMu sync.Mutex

func (e *Emitter) Script(o *Obligation) string {
	scriptMu.Lock()
	defer scriptMu.Unlock()
	if o.Raw != "" {
		var b strings.Builder
		b.WriteString("(set-logic ALL)\n")
		b.WriteString(basePrelude)
		sd := e.ss.Decls()
		b.WriteString(e.ss.StrDecls())
		b.WriteString(sd)
		// spec functions the lemma's element term refers to (not the fold itself, which the lemma script declares)
		used := symbolsOf(o.Raw)
		need := map[string]bool{}
		for i := len(e.reg.order) - 1; i >= 0; i-- {
			f := e.reg.order[i]
			if strings.Contains(o.Raw, "(declare-fun "+f.SMT+" ") {
				continue
			}
			if used[f.SMT] || need[f.SMT] {
				need[f.SMT] = true
				for s := range symbolsOf(f.Decl, f.Def) {
					used[s] = true
				}
			}
		}
		for _, f := range e.reg.order {
			if need[f.SMT] {
				b.WriteString(f.Decl)
				b.WriteString(f.Def)
			}
		}
		b.WriteString(o.Raw)
		b.WriteString("(check-sat)\n")
		return b.String()
	}
	body := strings.Join(o.PC, "\n") + "\n" + o.Goal
	decls := o.fv.decls[:o.NDecl]
	// transitive closure over fresh-constant definitions is not needed: pcs carry definitions.
	used := symbolsOf(body)
	// assertion-carrying decl lines (global facts) may mention further symbols
	// An assertion among the declarations is a well-formedness fact about fresh symbols (e.g. "a map is zero outside its
	// key set"). It is kept only when every fresh symbol it speaks about occurs in this VC (directly or through a kept
	// fact): facts about symbols of other paths cannot matter, and dropping a hypothesis is always sound.
	var keep []string
	type adecl struct {
		text  string
		syms  map[string]bool
		fresh []string
		kept  bool
	}
	var ads []*adecl
	for _, d := range decls {
		if strings.HasPrefix(d, "(assert") {
			a := &adecl{text: d, syms: symbolsOf(d)}
			for s := range a.syms {
				if strings.Contains(s, "!") {
					a.fresh = append(a.fresh, s)
				}
			}
			ads = append(ads, a)
		}
	}
	for changed := true; changed; {
		changed = false
		for _, a := range ads {
			if a.kept {
				continue
			}
			ok := true
			for _, s := range a.fresh {
				if !used[s] {
					ok = false
					break
				}
			}
			if ok {
				a.kept = true
				changed = true
				for s := range a.syms {
					used[s] = true
				}
			}
		}
	}
	keptText := map[string]bool{}
	for _, a := range ads {
		if a.kept {
			keptText[a.text] = true
		}
	}
	for _, d := range decls {
		if strings.HasPrefix(d, "(assert") {
			if keptText[d] {
				keep = append(keep, d)
			}
			continue
		}
		// (declare-const name sort)
		f := strings.Fields(d)
		if len(f) >= 2 && used[f[1]] {
			keep = append(keep, d)
		}
	}
	var b strings.Builder
	b.WriteString("(set-logic ALL)\n")
	b.WriteString(basePrelude)
	sd, sortAxioms := splitSortDecls(e.ss.Decls())
	b.WriteString(e.ss.StrDecls())
	b.WriteString(sd)
	headLen := b.Len()
	// Relevance closure (fixpoint): the symbols of the VC make spec functions relevant; a relevant spec function makes the
	// symbols of its declaration/definition relevant; a lemma is relevant when it speaks about a relevant spec function,
	// and then its symbols are relevant too. Axioms are always emitted.
	specNames := map[string]bool{}
	for _, f := range e.reg.order {
		specNames[f.SMT] = true
	}
	for _, a := range e.reg.axioms {
		for s := range symbolsOf(a) {
			used[s] = true
		}
	}
	need := map[string]bool{}
	lemmaIn := map[string]bool{}
	var lemmas []string
	for changed := true; changed; {
		changed = false
		for i := len(e.reg.order) - 1; i >= 0; i-- {
			f := e.reg.order[i]
			if need[f.SMT] || !used[f.SMT] {
				continue
			}
			need[f.SMT] = true
			changed = true
			def := ""
			for _, r := range o.Reveal {
				if r == f.Name {
					def = f.Def
				}
			}
			for s := range symbolsOf(f.Decl, def) {
				used[s] = true
			}
		}
		for _, a := range e.reg.lemmaAxioms {
			if lemmaIn[a] {
				continue
			}
			rel := false
			for s := range symbolsOf(a) {
				if specNames[s] && used[s] {
					rel = true
				}
			}
			if rel {
				lemmaIn[a] = true
				lemmas = append(lemmas, a)
				changed = true
				for s := range symbolsOf(a) {
					used[s] = true
				}
			}
		}
	}
	for _, f := range e.reg.order {
		if need[f.SMT] {
			b.WriteString(f.Decl)
			if f.Def != "" {
				for _, r := range o.Reveal {
					if r == f.Name {
						b.WriteString(f.Def)
					}
				}
			}
		}
	}
	for _, a := range e.reg.axioms {
		b.WriteString(a + "\n")
	}
	for _, a := range e.reg.lemmaAxioms {
		for _, l := range lemmas {
			if l == a {
				b.WriteString(a + "\n")
			}
		}
	}
	for _, d := range keep {
		b.WriteString(d + "\n")
	}
	// Quantified facts about sorts (map length, boxing into interfaces, reference links) accumulate over all functions of
	// a run. One is kept only when every function symbol of its pattern occurs in this VC (or in a kept fact): without a
	// ground term to match, E-matching can never instantiate it, and dropping a hypothesis is always sound. This keeps the
	// VC of a function independent of which other functions were verified in the same run.
	for _, p := range o.PC {
		b.WriteString("(assert " + p + ")\n")
	}
	b.WriteString("(assert (not " + o.Goal + "))\n")
	b.WriteString("(check-sat)\n")
	full := b.String()
	for _, sym := range symRe.FindAllString(full, -1) {
		used[sym] = true
	}
	var kept strings.Builder
	for changed := true; changed; {
		changed = false
		for i, a := range sortAxioms {
			if a == "" {
				continue
			}
			ok := false
			for _, alt := range patternSymbols(a) {
				all := true
				for _, sym := range alt {
					if !used[sym] {
						all = false
						break
					}
				}
				if all {
					ok = true
					break
				}
			}
			if ok {
				kept.WriteString(a + "\n")
				for sym := range symbolsOf(a) {
					if !used[sym] {
						used[sym] = true
						changed = true
					}
				}
				sortAxioms[i] = ""
			}
		}
	}
	// emitted right after the sort declarations (solver run times are sensitive to the order of assertions)
	return full[:headLen] + kept.String() + full[headLen:]
}

// splitSortDecls separates the quantified assertions of the sort declarations from the rest (sorts, functions, ground facts).
func splitSortDecls(sd string) (string, []string) {
	var rest strings.Builder
	var axioms []string
	for _, l := range strings.Split(sd, "\n") {
		if strings.HasPrefix(l, "(assert (forall") && strings.Contains(l, ":pattern") {
			axioms = append(axioms, l)
		} else {
			rest.WriteString(l + "\n")
		}
	}
	return rest.String(), axioms
}

// patternSymbols: per alternative :pattern annotation of a quantified assertion, its function symbols (bound variables
// and the array builtins excluded).
func patternSymbols(a string) [][]string {
	bound := map[string]bool{"select": true, "store": true, "pattern": true}
	if i := strings.Index(a, "(forall ("); i >= 0 {
		depth, j := 0, i+len("(forall ")
		for k := j; k < len(a); k++ {
			if a[k] == '(' {
				depth++
			} else if a[k] == ')' {
				depth--
				if depth == 0 {
					for _, bv := range strings.Split(a[j:k], ")") {
						f := strings.Fields(strings.TrimLeft(bv, "( "))
						if len(f) > 0 {
							bound[f[0]] = true
						}
					}
					break
				}
			}
		}
	}
	var out [][]string
	for _, part := range strings.Split(a, ":pattern")[1:] {
		var alt []string
		for _, sym := range symRe.FindAllString(part, -1) {
			if !bound[sym] {
				alt = append(alt, sym)
			}
		}
		out = append(out, alt)
	}
	return out
}

type Solver struct {
	Name string
	Args func(file string, toSec int) []string
}

var solvers = []Solver{
	{"z3-5.1.0", func(f string, to int) []string { return []string{"z3-new", fmt.Sprintf("-T:%d", to), f} }},
	{"z3-4.8.12", func(f string, to int) []string { return []string{"z3", fmt.Sprintf("-T:%d", to), f} }},
	// pure E-matching configuration (no model-based instantiation, no automatic tactic selection): on VCs whose
	// quantifiers all carry patterns this is the Boogie/Dafny setting; MBQI diverges on uninterpreted sorts otherwise
	{"z3-5.1.0-ematch", func(f string, to int) []string {
		return []string{"z3-new", fmt.Sprintf("-T:%d", to), "smt.auto_config=false", "smt.mbqi=false", f}
	}},
	// the same without array extensionality (fewer inferences, so an unsat answer stays valid): nested maps make the
	// extensionality skolems feed the "zero outside the key set" facts forever
	{"z3-5.1.0-ematch-noext", func(f string, to int) []string {
		return []string{"z3-new", fmt.Sprintf("-T:%d", to), "smt.auto_config=false", "smt.mbqi=false", "smt.array.extensional=false", f}
	}},
	// the same with relevancy filtering off: by default only terms of literals relevant to the current case split take part
	// in E-matching; a goal that is a conjunction of facts about one skolem index is refuted branch by branch, and in
	// each branch the terms of the other conjuncts (needed to reach the hypotheses' triggers) are filtered out
	{"z3-5.1.0-ematch-noext-norel", func(f string, to int) []string {
		return []string{"z3-new", fmt.Sprintf("-T:%d", to), "smt.auto_config=false", "smt.mbqi=false", "smt.array.extensional=false", "smt.relevancy=0", f}
	}},
	{"cvc5-1.0.3", func(f string, to int) []string {
		return []string{"cvc5", fmt.Sprintf("--tlimit=%d", to*1000), f}
	}},
}

type solveOut struct {
	solver string
	answer string
	out    string
	dur    float64
}

func runSolver(ctx context.Context, s Solver, file string, to int) solveOut {
	args := s.Args(file, to)
	t0 := time.Now()
	c, cancel := context.WithTimeout(ctx, time.Duration(to+2)*time.Second)
	defer cancel()
	cmd := exec.CommandContext(c, args[0], args[1:]...)
	out, _ := cmd.CombinedOutput()
	ans := "unknown"
	first := strings.TrimSpace(strings.SplitN(string(out), "\n", 2)[0])
	switch first {
	case "sat", "unsat":
		ans = first
	case "timeout":
		ans = "timeout"
	}
	if strings.HasPrefix(first, "(error") {
		ans = "error"
	}
	o := string(out)
	if len(o) > 2000 {
		o = o[:2000]
	}
	return solveOut{s.Name, ans, o, time.Since(t0).Seconds()}
}

// Solve races the solvers; returns the first definite answer.
// preferredCfg remembers, per function, which E-matching configuration decided its last hard obligation: the obligations
// of one function resemble each other, so that configuration is tried first for the next one (order only; same verdicts).
var preferredCfg sync.Map

func Solve(file string, timeout int, quickFirst bool, fn string) solveOut {
	if quickFirst {
		// two single-process attempts before the race (a race of five solvers per worker starves every one of them of CPU):
		// the default configuration decides most obligations within 2 s, pure E-matching without array extensionality
		// most of the rest
		r := runSolver(context.Background(), solvers[0], file, min(2, timeout))
		if r.answer == "sat" || r.answer == "unsat" {
			return r
		}
		order := []string{"z3-5.1.0-ematch-noext", "z3-5.1.0-ematch-noext-norel"}
		if p, ok := preferredCfg.Load(fn); ok && p.(string) == order[1] {
			order[0], order[1] = order[1], order[0]
		}
		for _, name := range order {
			for _, s := range solvers {
				if s.Name == name {
					r := runSolver(context.Background(), s, file, min(8, timeout))
					if r.answer == "unsat" {
						preferredCfg.Store(fn, name)
						return r
					}
				}
			}
		}
	}
	ctx, cancel := context.WithCancel(context.Background())
	defer cancel()
	ch := make(chan solveOut, len(solvers))
	for _, s := range solvers {
		go func(s Solver) { ch <- runSolver(ctx, s, file, timeout) }(s)
	}
	var last solveOut
	var outs []string
	nerr := 0
	for range solvers {
		r := <-ch
		if r.answer == "sat" || r.answer == "unsat" {
			return r
		}
		if r.answer == "error" && !strings.HasPrefix(r.solver, "cvc5") {
			nerr++
		}
		outs = append(outs, r.solver+": "+strings.TrimSpace(strings.SplitN(r.out, "\n", 2)[0]))
		if r.dur > last.dur {
			last = r
		}
	}
	last.answer = "unknown"
	if nerr > 0 {
		last.answer = "error"
	}
	last.solver = "all"
	last.out = strings.Join(outs, "; ")
	return last
}

// Discharge runs all obligations with a worker pool.
func Discharge(em *Emitter, obls []*Obligation, dir string, timeout int, workers int, keep bool) {
	var wg sync.WaitGroup
	sem := make(chan struct{}, workers)
	cache := sync.Map{}
	for i, o := range obls {
		wg.Add(1)
		sem <- struct{}{}
		go func(i int, o *Obligation) {
			defer wg.Done()
			defer func() { <-sem }()
			script := em.Script(o)
			o.Size = len(script)
			if v, ok := cache.Load(script); ok {
				c := v.(*Obligation)
				o.Verdict, o.Solver, o.Time, o.Output = c.Verdict, c.Solver+" (cached)", 0, c.Output
				return
			}
			file := filepath.Join(dir, fmt.Sprintf("vc_%05d.smt2", i))
			os.WriteFile(file, []byte(script), 0o644)
			var r solveOut
			if o.Kind == "cover" {
				r = runSolver(context.Background(), solvers[0], file, min(2, timeout))
			} else {
				to := timeout
				fcv, _ := failuresByFunc.LoadOrStore(o.Func, new(atomic.Int64))
				fc := fcv.(*atomic.Int64)
				if fc.Load() >= 8 && to > 3 {
					to = 3 // many obligations already failed: the verdict is settled, do not spend minutes on the rest
				}
				r = Solve(file, to, true, o.Func)
				if r.answer != "unsat" {
					fc.Add(1)
				}
			}
			o.Solver, o.Time = r.solver, r.dur
			switch {
			case o.Kind == "cover":
				switch r.answer {
				case "sat":
					o.Verdict = "DISCHARGED"
				case "unsat":
					o.Verdict = "VACUOUS"
				default:
					o.Verdict = "NO-CONTRADICTION-FOUND"
				}
			case r.answer == "unsat":
				o.Verdict = "DISCHARGED"
			case r.answer == "sat":
				o.Verdict = "REFUTED"
				// fetch a model
				os.WriteFile(file, []byte(strings.Replace(script, "(set-logic ALL)", "(set-option :produce-models true)\n(set-logic ALL)", 1)+"(get-model)\n"), 0o644)
				for _, s := range solvers {
					if s.Name == r.solver {
						m := runSolver(context.Background(), s, file, timeout)
						o.Output = m.out
					}
				}
			case r.answer == "error":
				o.Verdict = "SOLVER-ERROR"
				o.Output = r.out
			default:
				o.Verdict = "UNDECIDED"
				o.Output = r.out
			}
			if !keep && o.Verdict == "DISCHARGED" {
				os.Remove(file)
			}
			cache.Store(script, o)
		}(i, o)
	}
	wg.Wait()
}

// Stability re-runs discharged obligations under several solver seeds; a proof that depends on the seed is brittle.
func Stability(em *Emitter, obls []*Obligation, dir string, seeds int, workers int) {
	var wg sync.WaitGroup
	sem := make(chan struct{}, workers)
	var mu sync.Mutex
	unstable := 0
	for i, o := range obls {
		if o.Verdict != "DISCHARGED" || o.Kind == "cover" {
			continue
		}
		wg.Add(1)
		sem <- struct{}{}
		go func(i int, o *Obligation) {
			defer wg.Done()
			defer func() { <-sem }()
			file := filepath.Join(dir, fmt.Sprintf("st_%05d.smt2", i))
			os.WriteFile(file, []byte(em.Script(o)), 0o644)
			defer os.Remove(file)
			fails := 0
			worst := 0.0
			for sd := 1; sd <= seeds; sd++ {
				t0 := time.Now()
				c, cancel := context.WithTimeout(context.Background(), 12*time.Second)
				out, _ := exec.CommandContext(c, "z3-new", "-T:10", fmt.Sprintf("smt.random_seed=%d", sd), fmt.Sprintf("sat.random_seed=%d", sd), file).CombinedOutput()
				cancel()
				d := time.Since(t0).Seconds()
				if d > worst {
					worst = d
				}
				if !strings.HasPrefix(strings.TrimSpace(string(out)), "unsat") {
					fails++
				}
			}
			if fails > 0 || worst > 3 {
				mu.Lock()
				unstable++
				fmt.Printf("UNSTABLE %s: %d/%d seeds failed, worst %.1fs  [%s]\n", o.Name, fails, seeds, worst, o.Text)
				mu.Unlock()
			}
		}(i, o)
	}
	wg.Wait()
	fmt.Printf("stability: %d unstable obligations\n", unstable)
}
