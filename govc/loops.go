package main

// Loops (cut by invariants) and the syntactic modified-set analysis.

import (
	"go/ast"
	"go/token"
	"go/types"
)

type modSet struct {
	objs   map[types.Object]bool
	ghosts map[string]bool
	direct map[types.Object]bool // the variable itself is assigned (not just something reachable from it)
	fields map[types.Object]map[string]bool // struct fields written through root.Field... assignments
	whole  map[types.Object]bool            // modified in some other way (call with modifies, alias, index, direct)
}

// firstField: e is root.F, root.F[i], root.F.G ... with root a (pointer to) struct variable; returns F.
func (fv *FV) firstField(e ast.Expr) (string, bool) {
	var last *ast.SelectorExpr
	for {
		switch x := e.(type) {
		case *ast.ParenExpr:
			e = x.X
		case *ast.SelectorExpr:
			if fv.info.Selections[x] == nil {
				return "", false
			}
			last = x
			e = x.X
		case *ast.IndexExpr:
			last = nil
			e = x.X
			// an element write root.F[i] = v modifies field F (slice/map contents reached through it)
			if sel, ok := stripParens(x.X).(*ast.SelectorExpr); ok && fv.info.Selections[sel] != nil {
				if _, isID := stripParens(sel.X).(*ast.Ident); isID {
					return sel.Sel.Name, true
				}
			}
		case *ast.Ident:
			if last == nil {
				return "", false
			}
			if _, isID := stripParens(last.X).(*ast.Ident); !isID {
				return "", false
			}
			if sel := fv.info.Selections[last]; sel != nil && len(sel.Index()) == 1 {
				if _, isVar := sel.Obj().(*types.Var); isVar {
					return last.Sel.Name, true
				}
			}
			return "", false
		default:
			return "", false
		}
	}
}

func (fv *FV) rootObj(e ast.Expr) types.Object {
	for {
		switch x := e.(type) {
		case *ast.ParenExpr:
			e = x.X
		case *ast.StarExpr:
			e = x.X
		case *ast.SelectorExpr:
			if fv.info.Selections[x] == nil {
				return fv.info.ObjectOf(x.Sel)
			}
			e = x.X
		case *ast.IndexExpr:
			e = x.X
		case *ast.SliceExpr:
			e = x.X
		case *ast.UnaryExpr:
			if x.Op != token.AND {
				return nil
			}
			e = x.X
		case *ast.CallExpr:
			// conversions such as (*big.Int)(a)
			if tv, ok := fv.info.Types[x.Fun]; ok && tv.IsType() && len(x.Args) == 1 {
				e = x.Args[0]
				continue
			}
			return nil
		case *ast.Ident:
			if v, ok := fv.info.ObjectOf(x).(*types.Var); ok {
				return v
			}
			return nil
		default:
			return nil
		}
	}
}

func (fv *FV) modifiedIn(nodes ...ast.Node) *modSet {
	ms := &modSet{objs: map[types.Object]bool{}, ghosts: map[string]bool{}, direct: map[types.Object]bool{}, fields: map[types.Object]map[string]bool{}, whole: map[types.Object]bool{}}
	add := func(e ast.Expr) {
		if o := fv.rootObj(e); o != nil {
			ms.objs[o] = true
			if f, ok := fv.firstField(stripParens(e)); ok {
				if ms.fields[o] == nil {
					ms.fields[o] = map[string]bool{}
				}
				ms.fields[o][f] = true
			} else {
				ms.whole[o] = true
			}
			if _, isID := stripParens(e).(*ast.Ident); isID {
				ms.direct[o] = true
			}
		}
	}
	// variables bound inside these nodes to a location reached from another variable (x := p.f[k], x, ok := m[k],
	// for _, v := range m) refer to the same object: a write through them is a write to that root as well
	aliasOf := map[types.Object]types.Object{}
	for _, n := range nodes {
		if n == nil {
			continue
		}
		ast.Inspect(n, func(n ast.Node) bool {
			switch x := n.(type) {
			case *ast.AssignStmt:
				if len(x.Rhs) == 1 && len(x.Lhs) >= 1 {
					if id, ok := x.Lhs[0].(*ast.Ident); ok && id.Name != "_" {
						if lo, ok := fv.info.ObjectOf(id).(*types.Var); ok {
							if so := fv.ss.Of(lo.Type()); so.Kind == KMap || so.Kind == KPtr || so.Kind == KSlice {
								if r := fv.rootObj(x.Rhs[0]); r != nil && r != lo {
									aliasOf[lo] = r
								}
							}
						}
					}
				}
			case *ast.RangeStmt:
				if id, ok := x.Value.(*ast.Ident); ok && id != nil && id.Name != "_" {
					if lo, ok := fv.info.ObjectOf(id).(*types.Var); ok {
						if so := fv.ss.Of(lo.Type()); so.Kind == KMap || so.Kind == KPtr {
							if r := fv.rootObj(x.X); r != nil && r != lo {
								aliasOf[lo] = r
							}
						}
					}
				}
			}
			return true
		})
	}
	defer func() {
		for changed := true; changed; {
			changed = false
			for o := range ms.objs {
				if r, ok := aliasOf[o]; ok && !ms.objs[r] {
					ms.objs[r] = true
					ms.whole[r] = true
					changed = true
				}
			}
		}
	}()
	for _, n := range nodes {
		if n == nil {
			continue
		}
		ast.Inspect(n, func(n ast.Node) bool {
			switch x := n.(type) {
			case *ast.AssignStmt:
				for _, l := range x.Lhs {
					add(l)
				}
			case *ast.IncDecStmt:
				add(x.X)
			case *ast.RangeStmt:
				if x.Key != nil {
					add(x.Key)
				}
				if x.Value != nil {
					add(x.Value)
				}
			case *ast.UnaryExpr:
				if x.Op == token.AND {
					if _, isLit := x.X.(*ast.CompositeLit); !isLit {
						// &x passed somewhere: only counts when used as big.Int receiver/arg (handled at call)
					}
				}
			case *ast.CallExpr:
				fv.callMods(x, ms)
			}
			return true
		})
	}
	return ms
}

func (fv *FV) callMods(call *ast.CallExpr, ms *modSet) {
	fun := stripParens(call.Fun)
	if ix, ok := fun.(*ast.IndexExpr); ok {
		fun = ix.X
	}
	var callee *types.Func
	var recv ast.Expr
	switch f := fun.(type) {
	case *ast.Ident:
		switch o := fv.info.ObjectOf(f).(type) {
		case *types.Func:
			callee = o
		case *types.Var:
			if fp := fv.fc.FnParams[f.Name]; fp != nil {
				for _, m := range fp.Modifies {
					if _, ok := fv.reg.ghosts[m]; ok {
						ms.ghosts[m] = true
					}
				}
			}
		case *types.Builtin:
			if (o.Name() == "delete" || o.Name() == "copy" || o.Name() == "clear") && len(call.Args) > 0 {
				if r := fv.rootObj(call.Args[0]); r != nil {
					ms.objs[r] = true
					ms.whole[r] = true
				}
			}
		}
	case *ast.SelectorExpr:
		if sel := fv.info.Selections[f]; sel != nil {
			if m, ok := sel.Obj().(*types.Func); ok {
				callee = m
				recv = f.X
			} else if v, ok := sel.Obj().(*types.Var); ok {
				_ = v // call of a func-typed field
			}
		} else if o, ok := fv.info.ObjectOf(f.Sel).(*types.Func); ok {
			callee = o
		}
	case *ast.FuncLit:
		sub := fv.modifiedIn(f.Body)
		for o := range sub.objs {
			ms.objs[o] = true
			if sub.whole[o] {
				ms.whole[o] = true
			}
			for f := range sub.fields[o] {
				if ms.fields[o] == nil {
					ms.fields[o] = map[string]bool{}
				}
				ms.fields[o][f] = true
			}
		}
		for o := range sub.direct {
			ms.direct[o] = true
		}
		for g := range sub.ghosts {
			ms.ghosts[g] = true
		}
	}
	if callee == nil {
		return
	}
	if fc := fv.p.Contracts[funcKey(callee)]; fc != nil {
		for _, m := range fc.Modifies {
			if _, ok := fv.reg.ghosts[m]; ok {
				ms.ghosts[m] = true
				continue
			}
			if m == fc.RecvName && recv != nil {
				if r := fv.rootObj(recv); r != nil {
					ms.objs[r] = true
					ms.whole[r] = true
				}
			}
			for i, pn := range fc.Params {
				if pn == m && i < len(call.Args) {
					if r := fv.rootObj(call.Args[i]); r != nil {
						ms.objs[r] = true
						ms.whole[r] = true
					}
				}
			}
		}
		return
	}
	// math/big in-place operations
	if callee.Pkg() != nil && callee.Pkg().Path() == "math/big" && recv != nil {
		if bigReadOnly[callee.Name()] {
			return
		}
		if r := fv.rootObj(recv); r != nil {
			ms.objs[r] = true
			ms.whole[r] = true
		}
		return
	}
	if fv.isDropped(callee) || fv.hasModel(callee) {
		return
	}
	// unknown call: assumed not to modify its arguments (listed as an assumption at the call)
	if true {
		return
	}
	if recv != nil {
		if sig, ok := callee.Type().(*types.Signature); ok && sig.Recv() != nil {
			if _, isPtr := sig.Recv().Type().Underlying().(*types.Pointer); isPtr {
				if r := fv.rootObj(recv); r != nil {
					ms.objs[r] = true
					ms.whole[r] = true
				}
			}
		}
	}
	for _, a := range call.Args {
		if t := fv.info.TypeOf(a); t != nil {
			if so := fv.ss.Of(t); isRefKind(so) {
				if r := fv.rootObj(a); r != nil {
					ms.objs[r] = true
					ms.whole[r] = true
				}
			}
		}
	}
}

// math/big methods that only read their receiver (every other method of the package is taken to write it)
var bigReadOnly = map[string]bool{"Cmp": true, "CmpAbs": true, "Sign": true, "String": true, "Text": true, "Int64": true,
	"Uint64": true, "IsInt64": true, "IsUint64": true, "BitLen": true, "Bit": true, "Bytes": true, "IsInt": true,
	"Float64": true, "FloatString": true, "MarshalJSON": true, "MarshalText": true, "Append": true, "Format": true,
	"ProbablyPrime": true, "TrailingZeroBits": true, "FillBytes": true, "Num": true}

func (fv *FV) havoc(st *State, ms *modSet) {
	done := map[types.Object]bool{}
	var aliasPaths []*Path
	oldVals := map[types.Object]Term{}
	defer func() {
		// locations reached through aliases keep their nil-ness (only what they refer to is modified)
		for _, ra := range aliasPaths {
			ov, ok := oldVals[ra.Root]
			nv, ok2 := st.vars[ra.Root]
			if !ok || !ok2 {
				continue
			}
			for _, s := range ra.Steps {
				ov = fv.stepRead(st, ov, s, true)
				nv = fv.stepRead(st, nv, s, true)
				switch ov.Sort.Kind {
				case KMap:
					st.assume(tEq(mpNil(nv), mpNil(ov)))
				case KPtr:
					st.assume(tEq(tEq(nv, ptrNil(ov.Sort)), tEq(ov, ptrNil(ov.Sort))))
				}
			}
		}
	}()
	for _, o := range sortedObjs(ms.objs) {
		root := o
		if a := st.alias[o]; a != nil {
			ra := fv.resolveAlias(st, &Path{Root: o})
			if ra.Ghost != "" {
				continue
			}
			if len(ra.Steps) > 0 {
				if !ms.objs[ra.Root] && !rootAlsoAliased(st, ms, o, ra.Root, fv) {
					// only the aliased location changes: the rest of the root value is kept
					cur := fv.readPath(st, ra, true)
					nv := fv.fresh(o.Name(), cur.Sort)
					if !ms.direct[o] {
						switch cur.Sort.Kind {
						case KMap:
							st.assume(tEq(mpNil(nv), mpNil(cur)))
						case KPtr:
							st.assume(tEq(tEq(nv, ptrNil(cur.Sort)), tEq(cur, ptrNil(cur.Sort))))
						}
					}
					fv.quietUpdate = true
					fv.writePath(st, ra, nv, token.NoPos)
					fv.quietUpdate = false
					continue
				}
				aliasPaths = append(aliasPaths, ra)
			}
			root = ra.Root
		}
		if done[root] {
			continue
		}
		done[root] = true
		cur, ok := st.vars[root]
		if !ok {
			continue
		}
		nv := fv.fresh(root.Name(), cur.Sort)
		oldVals[root] = cur
		st.vars[root] = nv
		if root == o && ms.whole != nil && !ms.whole[root] && len(ms.fields[root]) > 0 && !ms.direct[root] {
			// only some fields of the struct are assigned in the loop: the others keep their values
			sv, so := cur, cur.Sort
			nsv := nv
			if so.Kind == KPtr && so.Elem != nil && so.Elem.Kind == KStruct {
				sv, nsv, so = ptrDrf(cur), ptrDrf(nv), so.Elem
			}
			if so.Kind == KStruct {
				for _, f := range so.Fields {
					if !ms.fields[root][f.Name] {
						st.assume(tEq(Term{sx(f.Acc, nsv.S), f.Sort}, Term{sx(f.Acc, sv.S), f.Sort}))
					}
				}
			}
		}
		if cur.Sort.Kind == KPtr && (ms.direct == nil || !ms.direct[root]) {
			// only the pointee is modified: the pointer keeps its nil-ness
			st.assume(tEq(tEq(nv, ptrNil(cur.Sort)), tEq(cur, ptrNil(cur.Sort))))
		}
		if cur.Sort.Kind == KMap && (ms.direct == nil || !ms.direct[root]) {
			// only entries are modified: the map keeps its nil-ness
			st.assume(tEq(mpNil(nv), mpNil(cur)))
		}
		if isUnsigned(root.Type()) {
			st.assume(T(sx(">=", nv.S, "0"), SBool))
		}
	}
	for _, g := range sortedKeys(ms.ghosts) {
		st.ghost[g] = fv.fresh(g, fv.reg.ghosts[g].Sort)
	}
}

// rootAlsoAliased reports whether another modified variable aliases a location under the same root
// (then the whole root is havocked instead of one location).
func rootAlsoAliased(st *State, ms *modSet, self types.Object, root types.Object, fv *FV) bool {
	for o := range ms.objs {
		if o == self {
			continue
		}
		if st.alias[o] != nil {
			if ra := fv.resolveAlias(st, &Path{Root: o}); ra.Ghost == "" && ra.Root == root {
				return true
			}
		}
	}
	return false
}

func (fv *FV) withReveal(ls *LoopSpec, f func()) {
	if ls == nil || len(ls.Reveal) == 0 {
		f()
		return
	}
	n := len(fv.reveal)
	fv.reveal = append(fv.reveal, ls.Reveal...)
	f()
	fv.reveal = fv.reveal[:n]
}

func (fv *FV) loopSpec(s ast.Stmt) *LoopSpec {
	ord := fv.loopOrd[s]
	if ls := fv.fc.Loops[ord]; ls != nil {
		return ls
	}
	return nil
}

func (fv *FV) checkInvs(st *State, ls *LoopSpec, pos token.Pos, kind string) {
	if ls == nil {
		return
	}
	for _, inv := range ls.Invariants {
		env := fv.specEnv(st, pos, nil, false)
		t, err := env.EvalBool(inv.X)
		if err != nil {
			if fv.unstatable(err) {
				continue
			}
			fv.abort(pos, "invariant %q: %v", inv.Text, err)
		}
		fv.assert(st, kind, t, pos, inv.Text)
	}
}

func (fv *FV) assumeInvs(st *State, ls *LoopSpec, pos token.Pos) {
	if ls == nil {
		return
	}
	for _, inv := range ls.Invariants {
		env := fv.specEnv(st, pos, nil, false)
		t, err := env.EvalBool(inv.X)
		if err != nil {
			if fv.unstatable(err) {
				continue
			}
			fv.abort(pos, "invariant %q: %v", inv.Text, err)
		}
		st.assume(t)
	}
}

// mention adds ground terms to the path condition through an uninterpreted predicate (no logical content).
func (fv *FV) mention(st *State, ls *LoopSpec, pos token.Pos) {
	if ls == nil {
		return
	}
	for _, m := range ls.Mentions {
		env := fv.specEnv(st, pos, nil, false)
		t, err := env.Eval(m.X)
		if err != nil {
			if fv.unstatable(err) {
				continue
			}
			fv.abort(pos, "mention %q: %v", m.Text, err)
		}
		fn := "mention_" + mangle(t.Sort.Name)
		d := "(declare-fun " + fn + " (" + t.Sort.Name + ") Bool)"
		found := false
		for _, x := range fv.decls {
			if x == d {
				found = true
			}
		}
		if !found {
			fv.decls = append(fv.decls, d, "(assert (forall ((x "+t.Sort.Name+")) (! ("+fn+" x) :pattern (("+fn+" x)))))")
		}
		st.assume(T(sx(fn, t.S), SBool))
	}
}

func (fv *FV) evalDecreases(st *State, ls *LoopSpec, pos token.Pos) *Term {
	if ls == nil || ls.Decreases == nil {
		return nil
	}
	env := fv.specEnv(st, pos, nil, false)
	t, err := env.Eval(ls.Decreases.X)
	if err != nil {
		fv.abort(pos, "decreases %q: %v", ls.Decreases.Text, err)
	}
	return &t
}

func (fv *FV) execFor(st *State, x *ast.ForStmt, label string, ctl *Ctl, k Kont) {
	start := func(st *State) {
		ls := fv.loopSpec(x)
		if ls == nil {
			fv.abort(x.Pos(), "loop %s has no invariant in the contract", fv.loopOrd[x])
		}
		bodyPos := x.Body.Lbrace + 1
		fv.checkInvs(st, ls, bodyPos, "inv-entry")
		var cn, pn ast.Node
		if x.Cond != nil {
			cn = x.Cond
		}
		if x.Post != nil {
			pn = x.Post
		}
		ms := fv.modifiedIn(cn, pn, x.Body)
		fv.havoc(st, ms)
		fv.assumeInvs(st, ls, bodyPos)
		cond := tBool(true)
		if x.Cond != nil {
			cond = fv.evalExpr(st, x.Cond)
		}
		// exit path
		if x.Cond != nil {
			ex := st.clone()
			ex.assume(tNot(cond))
			fv.countPath(x.Pos())
			k(ex)
		}
		// iteration path
		it := st
		it.assume(cond)
		fv.mention(it, ls, bodyPos)
		d0 := fv.evalDecreases(it, ls, bodyPos)
		endIter := func(s2 *State) {
			fin := func(s3 *State) {
				fv.checkInvs(s3, ls, bodyPos, "inv-preserved")
				if d0 != nil {
					d1 := fv.evalDecreases(s3, ls, bodyPos)
					fv.assert(s3, "decreases", tAnd(T(sx(">=", d0.S, "0"), SBool), T(sx("<", d1.S, d0.S), SBool)), x.Pos(), ls.Decreases.Text)
				}
			}
			if x.Post != nil {
				fv.execStmt(s2, x.Post, ctl, fin)
			} else {
				fin(s2)
			}
		}
		inner := ctl.with(label, k, endIter)
		fv.withReveal(ls, func() { fv.execBlock(it, x.Body.List, inner, endIter) })
	}
	if x.Init != nil {
		fv.execStmt(st, x.Init, ctl, start)
	} else {
		start(st)
	}
}

func (fv *FV) synthVar(name string, pos token.Pos) *types.Var {
	return types.NewVar(pos, fv.pk.Types, name, types.Typ[types.Int])
}

func (fv *FV) execRange(st *State, x *ast.RangeStmt, label string, ctl *Ctl, k Kont) {
	ls := fv.loopSpec(x)
	xt := fv.info.TypeOf(x.X)
	bodyPos := x.Body.Lbrace + 1
	keyObj := func(e ast.Expr) types.Object {
		if e == nil {
			return nil
		}
		id, ok := e.(*ast.Ident)
		if !ok {
			fv.abort(e.Pos(), "range variable must be an identifier")
		}
		if id.Name == "_" {
			return nil
		}
		return fv.info.ObjectOf(id)
	}
	switch u := types.Unalias(xt).Underlying().(type) {
	case *types.Slice, *types.Array, *types.Basic, *types.Pointer:
		var n Term
		var sv Term
		isInt := false
		if b, ok := u.(*types.Basic); ok {
			if b.Info()&types.IsInteger == 0 {
				fv.abort(x.Pos(), "range over %s is outside the subset", xt)
			}
			isInt = true
			n = fv.bind(st, fv.evalExpr(st, x.X), "n")
		} else {
			sv = fv.bind(st, fv.evalExpr(st, x.X), "rng")
			if sv.Sort.Kind != KSlice {
				fv.abort(x.Pos(), "range over sort %s", sv.Sort.Name)
			}
			n = fv.bind(st, slLen(sv), "n")
		}
		idx := keyObj(x.Key)
		if idx == nil {
			name := "$idx"
			if ls != nil && ls.Index != "" {
				name = ls.Index
			}
			idx = fv.synthVar(name, x.Pos())
		}
		if ls == nil {
			ls = &LoopSpec{}
		}
		st.vars[idx] = tInt(0)
		delete(st.alias, idx)
		fv.checkInvs(st, ls, bodyPos, "inv-entry")
		ms := fv.modifiedIn(x.Body)
		if ms.objs[idx] {
			fv.abort(x.Pos(), "range index modified in loop body")
		}
		ms.objs[idx] = true
		if v := keyObj(x.Value); v != nil {
			delete(ms.objs, v)
		}
		fv.havoc(st, ms)
		i := st.vars[idx]
		st.assume(tAnd(T(sx("<=", "0", i.S), SBool), T(sx("<=", i.S, n.S), SBool)))
		fv.assumeInvs(st, ls, bodyPos)
		ex := st.clone()
		ex.assume(tEq(i, n))
		if idx.Name() == "$idx" || (ls.Index != "" && idx.Name() == ls.Index) {
			// keep the final index visible for later clauses? not needed
		}
		fv.countPath(x.Pos())
		k(ex)
		it := st
		it.assume(T(sx("<", i.S, n.S), SBool))
		if v := keyObj(x.Value); v != nil && !isInt {
			it.vars[v] = fv.bind(it, slAt(sv, i), v.Name())
			delete(it.alias, v)
		}
		fv.mention(it, ls, bodyPos)
		endIter := func(s2 *State) {
			s2.vars[idx] = T(sx("+", i.S, "1"), SInt)
			fv.checkInvs(s2, ls, bodyPos, "inv-preserved")
		}
		inner := ctl.with(label, k, endIter)
		fv.withReveal(ls, func() { fv.execBlock(it, x.Body.List, inner, endIter) })
	case *types.Map:
		var mpath *Path
		if fv.isPathExpr(x.X) {
			mpath = fv.resolveAlias(st, fv.lvalue(st, x.X))
		}
		mv := fv.bind(st, fv.evalExpr(st, x.X), "rngm")
		if mv.Sort.Kind != KMap {
			fv.abort(x.Pos(), "range over sort %s", mv.Sort.Name)
		}
		dom0 := fv.fresh("dom0", fv.ss.mkArray(mv.Sort.Key, SBool))
		st.assume(T(sx("=", dom0.S, mpDom(mv)), SBool))
		vname := "visited"
		if ls != nil && ls.Visited != "" {
			vname = ls.Visited
		}
		if ls == nil {
			ls = &LoopSpec{}
		}
		vis := fv.synthVar(vname, x.Pos())
		vsort := fv.ss.mkArray(mv.Sort.Key, SBool)
		st.vars[vis] = Term{fv.ss.Zero(vsort), vsort}
		fv.checkInvs(st, ls, bodyPos, "inv-entry")
		ms := fv.modifiedIn(x.Body)
		ms.objs[vis] = true
		ko, vo := keyObj(x.Key), keyObj(x.Value)
		if ko != nil {
			delete(ms.objs, ko)
		}
		if vo != nil {
			delete(ms.objs, vo)
		}
		mapModified := mpath != nil && ms.objs[mpath.Root]
		fv.havoc(st, ms)
		V := st.vars[vis]
		kq := "(forall ((qk " + mv.Sort.Key.Name + ")) "
		st.assume(T(kq+"(! (=> (select "+V.S+" qk) (select "+dom0.S+" qk)) :pattern ((select "+V.S+" qk))))", SBool))
		if mapModified {
			cur := fv.readPath(st, mpath, true)
			st.assume(T(sx("=", mpDom(cur), dom0.S), SBool))
		}
		fv.assumeInvs(st, ls, bodyPos)
		ex := st.clone()
		ex.assume(T(kq+"(! (=> (select "+dom0.S+" qk) (select "+V.S+" qk)) :pattern ((select "+dom0.S+" qk))))", SBool))
		fv.countPath(x.Pos())
		k(ex)
		it := st
		kk := fv.fresh("key", mv.Sort.Key)
		it.assume(tAnd(T(sx("select", dom0.S, kk.S), SBool), tNot(T(sx("select", V.S, kk.S), SBool))))
		if ko != nil {
			it.vars[ko] = kk
			delete(it.alias, ko)
		}
		if vo != nil {
			if mpath != nil && isRefKind(mv.Sort.Elem) {
				delete(it.vars, vo)
				it.alias[vo] = extend(mpath, PathStep{Kind: StMapKey, Key: kk, Pos: x.Pos()})
			} else {
				cur := mv
				if mapModified {
					cur = fv.readPath(it, mpath, true)
				}
				it.vars[vo] = fv.bind(it, mpRaw(cur, kk), vo.Name())
				for _, f := range fv.wfAll(it.vars[vo], 2) {
					it.assume(T(f, SBool))
				}
				delete(it.alias, vo)
			}
		}
		fv.mention(it, ls, bodyPos)
		endIter := func(s2 *State) {
			s2.vars[vis] = T(sx("store", V.S, kk.S, "true"), vsort)
			if mapModified {
				cur := fv.readPath(s2, mpath, true)
				fv.assert(s2, "range-map-dom", T(sx("=", mpDom(cur), dom0.S), SBool), x.Pos(), "key set of the ranged map is unchanged by the iteration")
			}
			fv.checkInvs(s2, ls, bodyPos, "inv-preserved")
		}
		inner := ctl.with(label, k, endIter)
		fv.execBlock(it, x.Body.List, inner, endIter)
	case *types.Chan:
		// receive-only iteration over a channel: an arbitrary finite sequence of values (termination is not shown)
		fv.evalExpr(st, x.X)
		if ls == nil {
			ls = &LoopSpec{}
		}
		fv.note("range over a channel is treated as iteration over an arbitrary finite sequence")
		fv.checkInvs(st, ls, bodyPos, "inv-entry")
		ms := fv.modifiedIn(x.Body)
		ko := keyObj(x.Key)
		if ko != nil {
			delete(ms.objs, ko)
		}
		fv.havoc(st, ms)
		fv.assumeInvs(st, ls, bodyPos)
		ex := st.clone()
		fv.countPath(x.Pos())
		k(ex)
		it := st
		if ko != nil {
			it.vars[ko] = fv.fresh(ko.Name(), fv.ss.Of(ko.Type()))
			delete(it.alias, ko)
			for _, f := range fv.unsignedFacts(it.vars[ko], ko.Type(), 3) {
				it.assume(T(f, SBool))
			}
		}
		fv.mention(it, ls, bodyPos)
		endIter := func(s2 *State) {
			fv.checkInvs(s2, ls, bodyPos, "inv-preserved")
		}
		inner := ctl.with(label, k, endIter)
		fv.execBlock(it, x.Body.List, inner, endIter)
	default:
		fv.abort(x.Pos(), "range over %s is outside the subset", xt)
	}
}


// unstatable: a loop clause names a local that no longer exists and cannot be rebound (the variable was removed or
// retyped, not renamed). The clause is dropped — the function is still checked against its pre/postconditions and its
// callees' preconditions, which are the named obligations that decide whether the change preserved the property.
func (fv *FV) unstatable(err error) bool {
	if err == nil {
		return false
	}
	// unknown name (variable removed) or a sort error (variable retyped): the clause can no longer be stated about this code
	fv.note("loop clause dropped: " + err.Error() + " (the local it names no longer exists or changed type)")
	return true
}
