package main

// Go type -> SMT sort mapping. Every sort is created on demand and its declaration
// is recorded in creation (dependency) order.

import (
	"crypto/sha1"
	"fmt"
	"go/types"
	"sort"
	"strings"
)

type SortKind int

const (
	KInt SortKind = iota
	KBool
	KReal
	KStr
	KBig    // *big.Int / *MonetaryInt : option Int (bnil | bint v)
	KRat    // big.Rat value (num, den)
	KStruct // datatype
	KSlice
	KMap
	KPtr    // option T
	KSum    // interface as closed sum
	KErr
	KFn
	KOpaque // uninterpreted sort with a nil/zero constant
	KArray  // ghost total array
	KTuple
)

type Field struct {
	Name string // Go field name
	Acc  string // SMT accessor
	Sort *Sort
}

type Ctor struct {
	Name    string // SMT constructor name
	GoName  string // qualified Go type name
	Acc     string // payload accessor ("" if none)
	Payload *Sort
	Tester  string
	GoType  types.Type
}

type Sort struct {
	Name   string
	Kind   SortKind
	Elem   *Sort // slice elem, ptr target, map value, array value
	Key    *Sort // map key, array index
	Fields []Field
	Ctors  []Ctor
	Mk     string // constructor name for struct/slice/map/ptr
	GoType types.Type
}

func (s *Sort) String() string { return s.Name }

func (s *Sort) FieldByName(n string) *Field {
	for i := range s.Fields {
		if s.Fields[i].Name == n {
			return &s.Fields[i]
		}
	}
	return nil
}

type Sorts struct {
	extra map[string]bool
	byKey  map[string]*Sort
	byName map[string]*Sort
	boxPairs map[string][]boxPair
	iconvs   []iconvPair
	decls  []string // SMT declarations in dependency order
	inprog map[string]bool
	prog   *Program
	strs   map[string]string // string literal -> const name
	strOrd []string
	refLinks map[string]types.Type // recursive pointer sorts -> pointee Go type
}

var (
	SInt  = &Sort{Name: "Int", Kind: KInt}
	SBool = &Sort{Name: "Bool", Kind: KBool}
	SReal = &Sort{Name: "Real", Kind: KReal}
	SStr  = &Sort{Name: "Str", Kind: KStr}
	SBig  = &Sort{Name: "BI", Kind: KBig}
	SRat  = &Sort{Name: "Rat", Kind: KRat, Mk: "mk_Rat"}
	SErr  = &Sort{Name: "Err", Kind: KErr}
	SFn   = &Sort{Name: "Fn", Kind: KFn}
)

func NewSorts(p *Program) *Sorts {
	s := &Sorts{byKey: map[string]*Sort{}, byName: map[string]*Sort{}, boxPairs: map[string][]boxPair{}, inprog: map[string]bool{}, prog: p, strs: map[string]string{}}
	SRat.Fields = []Field{{"num", "rnum", SInt}, {"den", "rden", SInt}}
	for _, b := range []*Sort{SInt, SBool, SReal, SStr, SBig, SRat, SErr, SFn} {
		s.byName[b.Name] = b
	}
	return s
}

const basePrelude = `(declare-sort Str 0)
(declare-sort Err 0)
(declare-sort Fn 0)
(declare-datatypes ((BI 0)) (((bnil) (bint (bval Int)))))
(declare-datatypes ((Rat 0)) (((mk_Rat (rnum Int) (rden Int)))))
(assert (= (bval bnil) 0))
(declare-const err_nil Err)
(declare-const fn_nil Fn)
(declare-const str_empty Str)
(declare-fun errIs (Err Str) Bool)
(declare-fun str_cat (Str Str) Str)
(declare-fun str_len (Str) Int)
(declare-fun str_lt (Str Str) Bool)
(declare-fun int2str (Int) Str)
(assert (forall ((c Str)) (! (not (errIs err_nil c)) :pattern ((errIs err_nil c)))))
(assert (forall ((s Str)) (! (>= (str_len s) 0) :pattern ((str_len s)))))
(assert (= (str_len str_empty) 0))
(assert (forall ((s Str)) (! (=> (= (str_len s) 0) (= s str_empty)) :pattern ((str_len s)))))
(assert (forall ((i Int)) (! (> (str_len (int2str i)) 0) :pattern ((int2str i)))))
(assert (forall ((i Int) (j Int)) (! (=> (= (int2str i) (int2str j)) (= i j)) :pattern ((int2str i) (int2str j)))))
(define-fun imin ((a Int) (b Int)) Int (ite (<= a b) a b))
(define-fun imax ((a Int) (b Int)) Int (ite (>= a b) a b))
`

func mangle(s string) string {
	var b strings.Builder
	for _, r := range s {
		switch {
		case r >= 'a' && r <= 'z', r >= 'A' && r <= 'Z', r >= '0' && r <= '9', r == '_':
			b.WriteRune(r)
		case r == '.' || r == '/':
			b.WriteByte('_')
		case r == '*':
			b.WriteString("P")
		case r == '[' || r == ']':
			b.WriteString("S")
		default:
			b.WriteString("_")
		}
	}
	return b.String()
}

func shortTypeName(t types.Type) string {
	q := func(p *types.Package) string { return p.Name() }
	return mangle(types.TypeString(t, q))
}

func isBigIntNamed(t types.Type) bool {
	// named type whose underlying type is math/big.Int's struct, i.e. big.Int or MonetaryInt, paginate.BigInt
	n, ok := t.(*types.Named)
	if !ok {
		if a, ok := t.(*types.Alias); ok {
			return isBigIntNamed(types.Unalias(a))
		}
		return false
	}
	if n.Obj().Pkg() != nil && n.Obj().Pkg().Path() == "math/big" && n.Obj().Name() == "Int" {
		return true
	}
	// a named type defined as `type X big.Int`
	if st, ok := n.Underlying().(*types.Struct); ok && n.Obj().Pkg() != nil && n.Obj().Pkg().Path() != "math/big" {
		if st.NumFields() == 2 && st.Field(0).Name() == "neg" && st.Field(1).Name() == "abs" {
			return true
		}
	}
	return false
}

func isBigRatNamed(t types.Type) bool {
	n, ok := types.Unalias(t).(*types.Named)
	if !ok {
		return false
	}
	return n.Obj().Pkg() != nil && n.Obj().Pkg().Path() == "math/big" && n.Obj().Name() == "Rat"
}

func (ss *Sorts) isTransparentPkg(p *types.Package) bool {
	if p == nil {
		return false
	}
	return strings.HasPrefix(p.Path(), "github.com/formancehq/ledger") ||
		p.Path() == "github.com/formancehq/go-libs/v5/pkg/storage/bun/paginate"
}

// Of returns the SMT sort of a Go type.
func (ss *Sorts) Of(t types.Type) *Sort {
	t = types.Unalias(t)
	key := typeKey(t)
	if s, ok := ss.byKey[key]; ok {
		return s
	}
	s := ss.build(t, key)
	if s.Kind == KOpaque && strings.HasPrefix(s.Name, "U_Ref_") {
		return s // representation used only inside the recursive type under construction; not memoized
	}
	ss.byKey[key] = s
	return s
}

// typeKey is the memoization key of a type; function-local named types are distinguished by position.
func typeKey(t types.Type) string {
	key := types.TypeString(t, nil)
	var walk func(t types.Type)
	seen := 0
	walk = func(t types.Type) {
		seen++
		if seen > 8 {
			return
		}
		switch u := types.Unalias(t).(type) {
		case *types.Named:
			if o := u.Obj(); o.Pkg() != nil && o.Parent() != nil && o.Parent() != o.Pkg().Scope() {
				key += fmt.Sprintf("@%d", int(o.Pos()))
			}
		case *types.Pointer:
			walk(u.Elem())
		case *types.Slice:
			walk(u.Elem())
		case *types.Map:
			walk(u.Key())
			walk(u.Elem())
		}
	}
	walk(t)
	return key
}

// ensureDecl adds a global declaration once.
func (ss *Sorts) ensureDecl(key, decl string) {
	if ss.extra == nil {
		ss.extra = map[string]bool{}
	}
	if !ss.extra[key] {
		ss.extra[key] = true
		ss.decls = append(ss.decls, decl)
	}
}

func (ss *Sorts) opaque(name string, t types.Type) *Sort {
	name = "U_" + name
	if s, ok := ss.byName[name]; ok {
		return s
	}
	s := &Sort{Name: name, Kind: KOpaque, GoType: t}
	ss.byName[name] = s
	ss.decls = append(ss.decls, fmt.Sprintf("(declare-sort %s 0)\n(declare-const nil_%s %s)", name, name, name))
	return s
}

func (ss *Sorts) build(t types.Type, key string) *Sort {
	if isBigIntNamed(t) {
		return SInt // a big.Int *value*
	}
	if isBigRatNamed(t) {
		return SRat
	}
	switch u := t.(type) {
	case *types.Basic:
		switch {
		case u.Info()&types.IsInteger != 0:
			return SInt
		case u.Info()&types.IsBoolean != 0:
			return SBool
		case u.Info()&types.IsString != 0:
			return SStr
		case u.Info()&types.IsFloat != 0:
			return ss.opaque("float", t)
		case u.Kind() == types.UntypedNil:
			return ss.opaque("untypednil", t)
		}
		return ss.opaque(mangle(u.Name()), t)
	case *types.TypeParam:
		return ss.opaque("TP_"+u.Obj().Name(), t)
	case *types.Pointer:
		el := types.Unalias(u.Elem())
		if isBigIntNamed(el) {
			return SBig
		}
		if ss.inprog[types.TypeString(el, nil)] {
			r := ss.opaque("Ref_"+shortTypeName(el), t)
			if ss.refLinks == nil {
				ss.refLinks = map[string]types.Type{}
			}
			ss.refLinks[r.Name] = el
			return r
		}
		es := ss.Of(el)
		if es.Kind == KOpaque {
			if _, isIface := el.Underlying().(*types.Interface); isIface {
				return ss.opaque("P"+strings.TrimPrefix(es.Name, "U_"), t)
			}
			if _, isTP := el.(*types.TypeParam); isTP {
				return ss.opaque("P"+strings.TrimPrefix(es.Name, "U_"), t)
			}
		}
		return ss.mkPtr(es, t)
	case *types.Slice:
		return ss.mkSlice(ss.Of(u.Elem()), t)
	case *types.Array:
		return ss.mkSlice(ss.Of(u.Elem()), t)
	case *types.Map:
		return ss.mkMap(ss.Of(u.Key()), ss.Of(u.Elem()), t)
	case *types.Signature:
		return SFn
	case *types.Chan:
		return ss.opaque("chan", t)
	case *types.Struct:
		return ss.mkStruct("anon_"+fmt.Sprint(len(ss.byKey)), u, t)
	case *types.Interface:
		if u.NumMethods() == 0 {
			return ss.opaque("any", t)
		}
		return ss.opaque("iface_"+fmt.Sprint(len(ss.byKey)), t)
	case *types.Named:
		obj := u.Obj()
		if obj.Pkg() == nil {
			if obj.Name() == "error" {
				return SErr
			}
			return ss.opaque(obj.Name(), t)
		}
		qn := mangle(obj.Pkg().Name() + "_" + obj.Name())
		if obj.Parent() != nil && obj.Parent() != obj.Pkg().Scope() {
			qn += fmt.Sprintf("_l%d", int(obj.Pos())) // function-local type: names need not be unique in the package
		}
		if u.TypeArgs() != nil && u.TypeArgs().Len() > 0 {
			var as []string
			for i := 0; i < u.TypeArgs().Len(); i++ {
				as = append(as, shortTypeName(u.TypeArgs().At(i)))
			}
			qn += "_" + strings.Join(as, "_")
		}
		switch un := u.Underlying().(type) {
		case *types.Struct:
			if !ss.isTransparentPkg(obj.Pkg()) {
				return ss.opaque(qn, t)
			}
			if ss.inprog[key] {
				return ss.opaque("Ref_"+qn, t)
			}
			ss.inprog[key] = true
			defer delete(ss.inprog, key)
			return ss.mkStruct(qn, un, t)
		case *types.Interface:
			if ss.prog != nil {
				if impls := ss.prog.sumImpls(u); impls != nil {
					if ss.inprog[key] {
						return ss.opaque("Ref_"+qn, t)
					}
					ss.inprog[key] = true
					defer delete(ss.inprog, key)
					return ss.mkSum(qn, u, impls)
				}
			}
			return ss.opaque(qn, t)
		default:
			return ss.Of(un)
		}
	case *types.Tuple:
		return ss.opaque("tuple", t)
	}
	return ss.opaque(mangle(key), t)
}

func (ss *Sorts) mkStruct(name string, st *types.Struct, t types.Type) *Sort {
	s := &Sort{Name: "T_" + name, Kind: KStruct, GoType: t, Mk: "mk_" + name}
	var fs []string
	for i := 0; i < st.NumFields(); i++ {
		f := st.Field(i)
		fsrt := ss.Of(f.Type())
		acc := fmt.Sprintf("%s_%s", name, f.Name())
		s.Fields = append(s.Fields, Field{Name: f.Name(), Acc: acc, Sort: fsrt})
		fs = append(fs, fmt.Sprintf("(%s %s)", acc, fsrt.Name))
	}
	if len(fs) == 0 {
		ss.decls = append(ss.decls, fmt.Sprintf("(declare-datatypes ((%s 0)) (((%s))))", s.Name, s.Mk))
	} else {
		ss.decls = append(ss.decls, fmt.Sprintf("(declare-datatypes ((%s 0)) (((%s %s))))", s.Name, s.Mk, strings.Join(fs, " ")))
	}
	ss.byName[s.Name] = s
	return s
}

func (ss *Sorts) mkPtr(el *Sort, t types.Type) *Sort {
	name := "P_" + strings.TrimPrefix(el.Name, "T_")
	if s, ok := ss.byName[name]; ok {
		return s
	}
	s := &Sort{Name: name, Kind: KPtr, Elem: el, GoType: t, Mk: "pmk_" + name}
	ss.decls = append(ss.decls, fmt.Sprintf("(declare-datatypes ((%s 0)) (((pnil_%s) (%s (pdrf_%s %s)))))", name, name, s.Mk, name, el.Name))
	ss.byName[name] = s
	return s
}

func (ss *Sorts) mkSlice(el *Sort, t types.Type) *Sort {
	name := "Sl_" + strings.TrimPrefix(el.Name, "T_")
	if s, ok := ss.byName[name]; ok {
		return s
	}
	s := &Sort{Name: name, Kind: KSlice, Elem: el, GoType: t, Mk: "mk_" + name}
	ss.decls = append(ss.decls, fmt.Sprintf("(declare-datatypes ((%s 0)) (((%s (arr_%s (Array Int %s)) (len_%s Int) (isnil_%s Bool)))))", name, s.Mk, name, el.Name, name, name))
	ss.byName[name] = s
	return s
}

func (ss *Sorts) mkMap(k, v *Sort, t types.Type) *Sort {
	name := "Mp_" + strings.TrimPrefix(k.Name, "T_") + "_" + strings.TrimPrefix(v.Name, "T_")
	if s, ok := ss.byName[name]; ok {
		return s
	}
	s := &Sort{Name: name, Kind: KMap, Key: k, Elem: v, GoType: t, Mk: "mk_" + name}
	ss.decls = append(ss.decls, fmt.Sprintf("(declare-datatypes ((%s 0)) (((%s (dom_%s (Array %s Bool)) (val_%s (Array %s %s)) (mnil_%s Bool)))))", name, s.Mk, name, k.Name, name, k.Name, v.Name, name))
	ss.decls = append(ss.decls, fmt.Sprintf("(declare-fun maplen_%s (%s) Int)", name, name))
	ss.decls = append(ss.decls, fmt.Sprintf("(assert (forall ((m %s)) (! (>= (maplen_%s m) 0) :pattern ((maplen_%s m)))))", name, name, name))
	ss.decls = append(ss.decls, fmt.Sprintf("(assert (forall ((m %s) (k %s)) (! (=> (select (dom_%s m) k) (> (maplen_%s m) 0)) :pattern ((select (dom_%s m) k) (maplen_%s m)))))", name, k.Name, name, name, name, name))
	ss.decls = append(ss.decls, fmt.Sprintf("(assert (forall ((m %s)) (! (=> (= (dom_%s m) ((as const (Array %s Bool)) false)) (= (maplen_%s m) 0)) :pattern ((maplen_%s m)))))", name, name, k.Name, name, name))
	ss.byName[name] = s
	return s
}

// Ghost total array sort.
func (ss *Sorts) mkArray(k, v *Sort) *Sort {
	name := fmt.Sprintf("(Array %s %s)", k.Name, v.Name)
	if s, ok := ss.byName[name]; ok {
		return s
	}
	s := &Sort{Name: name, Kind: KArray, Key: k, Elem: v}
	ss.byName[name] = s
	return s
}

func (ss *Sorts) mkSum(name string, iface *types.Named, impls []types.Type) *Sort {
	s := &Sort{Name: "I_" + name, Kind: KSum, GoType: iface}
	ss.byName[s.Name] = s
	ss.byKey[types.TypeString(iface, nil)] = s
	var cs []string
	cs = append(cs, fmt.Sprintf("(inil_%s)", name))
	for _, it := range impls {
		ps := ss.Of(it)
		tn := shortTypeName(it)
		c := Ctor{Name: fmt.Sprintf("c_%s_%s", name, tn), GoName: types.TypeString(it, nil), Acc: fmt.Sprintf("u_%s_%s", name, tn), Payload: ps, GoType: it}
		c.Tester = "(_ is " + c.Name + ")"
		s.Ctors = append(s.Ctors, c)
		cs = append(cs, fmt.Sprintf("(%s (%s %s))", c.Name, c.Acc, ps.Name))
	}
	ss.decls = append(ss.decls, fmt.Sprintf("(declare-datatypes ((%s 0)) ((%s)))", s.Name, strings.Join(cs, " ")))
	return s
}

func (s *Sort) NilCtor() string {
	return "inil_" + strings.TrimPrefix(s.Name, "I_")
}

func (s *Sort) CtorFor(t types.Type) *Ctor {
	t = types.Unalias(t)
	for i := range s.Ctors {
		if types.Identical(s.Ctors[i].GoType, t) {
			return &s.Ctors[i]
		}
	}
	return nil
}

// Zero returns the zero value term of a sort.
func (ss *Sorts) Zero(s *Sort) string {
	switch s.Kind {
	case KInt:
		return "0"
	case KReal:
		return "0.0"
	case KBool:
		return "false"
	case KStr:
		return "str_empty"
	case KBig:
		return "bnil"
	case KRat:
		return "(mk_Rat 0 1)"
	case KErr:
		return "err_nil"
	case KFn:
		return "fn_nil"
	case KOpaque:
		return "nil_" + s.Name
	case KPtr:
		return "pnil_" + s.Name
	case KSum:
		return s.NilCtor()
	case KStruct:
		if len(s.Fields) == 0 {
			return s.Mk
		}
		var fs []string
		for _, f := range s.Fields {
			fs = append(fs, ss.Zero(f.Sort))
		}
		return "(" + s.Mk + " " + strings.Join(fs, " ") + ")"
	case KSlice:
		return fmt.Sprintf("(%s ((as const (Array Int %s)) %s) 0 true)", s.Mk, s.Elem.Name, ss.Zero(s.Elem))
	case KMap:
		return fmt.Sprintf("(%s ((as const (Array %s Bool)) false) ((as const (Array %s %s)) %s) true)", s.Mk, s.Key.Name, s.Key.Name, s.Elem.Name, ss.Zero(s.Elem))
	case KArray:
		return fmt.Sprintf("((as const %s) %s)", s.Name, ss.Zero(s.Elem))
	}
	panic("zero of " + s.Name)
}

func (ss *Sorts) StrConst(lit string) string {
	if lit == "" {
		return "str_empty"
	}
	if c, ok := ss.strs[lit]; ok {
		return c
	}
	c := fmt.Sprintf("str_%d_%s", len(ss.strs), mangle(lit))
	if len(c) > 40 {
		c = c[:40]
	}
	ss.strs[lit] = c
	ss.strOrd = append(ss.strOrd, lit)
	return c
}

func (ss *Sorts) StrDecls() string {
	var b strings.Builder
	names := []string{"str_empty"}
	lits := append([]string(nil), ss.strOrd...)
	sort.Strings(lits)
	for _, l := range lits {
		fmt.Fprintf(&b, "(declare-const %s Str) ; %q\n", ss.strs[l], l)
		names = append(names, ss.strs[l])
	}
	if len(names) > 1 {
		fmt.Fprintf(&b, "(assert (distinct %s))\n", strings.Join(names, " "))
	}
	return b.String()
}

// BoxFn declares (once) the injection of a concrete type into an opaque interface sort, its partial inverse,
// and the dynamic-type tag of boxed values.
func (ss *Sorts) BoxFn(from, to *Sort, goType types.Type) (string, string) {
	tname := mangle(from.Name)
	if goType != nil {
		tname = shortTypeName(goType)
	}
	fn := "box_" + tname + "_" + mangle(to.Name)
	un := "un" + fn
	key := "boxfn:" + fn
	if _, ok := ss.byName[key]; !ok {
		ss.byName[key] = to
		dt := ss.DynTypeFn(to)
		ss.decls = append(ss.decls, fmt.Sprintf("(declare-fun %s (%s) %s)\n(declare-fun %s (%s) %s)\n(assert (forall ((v %s)) (! (and (= (%s (%s v)) v) (= (%s (%s v)) %s)) :pattern ((%s v)))))",
			fn, from.Name, to.Name, un, to.Name, from.Name, from.Name, un, fn, dt, fn, ss.StrConst("type:"+tname), fn))
		bp := boxPair{from, goType, tname}
		ss.boxPairs[to.Name] = append(ss.boxPairs[to.Name], bp)
		for _, ic := range ss.iconvs {
			if ic.to == to {
				ss.iconvUnbox(ic, bp)
			}
		}
	}
	return fn, un
}

type boxPair struct {
	from   *Sort
	goType types.Type
	tname  string
}

type iconvPair struct{ from, to *Sort }

// IConvFn declares (once) the conversion of a value of one opaque interface sort into another: the dynamic
// type and the boxed value are preserved (Go: converting an interface value to another interface type).
func (ss *Sorts) IConvFn(from, to *Sort) string {
	fn := "iconv_" + mangle(from.Name) + "_" + mangle(to.Name)
	key := "iconv:" + fn
	if _, ok := ss.byName[key]; !ok {
		ss.byName[key] = to
		da, db := ss.DynTypeFn(from), ss.DynTypeFn(to)
		ss.decls = append(ss.decls, fmt.Sprintf("(declare-fun %s (%s) %s)\n(assert (forall ((v %s)) (! (= (%s (%s v)) (%s v)) :pattern ((%s v)))))\n(assert (= (%s %s) %s))",
			fn, from.Name, to.Name, from.Name, db, fn, da, fn, fn, ss.Zero(from), ss.Zero(to)))
		ic := iconvPair{from, to}
		ss.iconvs = append(ss.iconvs, ic)
		for _, bp := range append([]boxPair(nil), ss.boxPairs[to.Name]...) {
			ss.iconvUnbox(ic, bp)
		}
	}
	return fn
}

func (ss *Sorts) iconvUnbox(ic iconvPair, bp boxPair) {
	if bp.from == ic.from {
		return
	}
	_, unA := ss.BoxFn(bp.from, ic.from, bp.goType)
	_, unB := ss.BoxFn(bp.from, ic.to, bp.goType)
	fn := "iconv_" + mangle(ic.from.Name) + "_" + mangle(ic.to.Name)
	ss.decls = append(ss.decls, fmt.Sprintf("(assert (forall ((v %s)) (! (= (%s (%s v)) (%s v)) :pattern ((%s (%s v))))))", ic.from.Name, unB, fn, unA, unB, fn))
}

// SprintfFn declares (once) an uninterpreted function standing for fmt.Sprintf with a constant format:
// equal arguments give equal strings; nothing else is assumed about the text.
func (ss *Sorts) SprintfFn(format string, args []*Sort) string {
	h := sha1.Sum([]byte(format))
	fn := fmt.Sprintf("sprintf_%x", h[:5])
	var as []string
	for _, a := range args {
		fn += "_" + mangle(a.Name)
		as = append(as, a.Name)
	}
	key := "sprintf:" + fn
	if _, ok := ss.byName[key]; !ok {
		ss.byName[key] = SStr
		ss.decls = append(ss.decls, fmt.Sprintf("(declare-fun %s (%s) Str) ; fmt.Sprintf(%q, ...)", fn, strings.Join(as, " "), format))
	}
	return fn
}

// DynTypeFn declares (once) the dynamic type tag function of an opaque interface sort.
func (ss *Sorts) DynTypeFn(to *Sort) string {
	fn := "dyntype_" + mangle(to.Name)
	key := "dynfn:" + fn
	if _, ok := ss.byName[key]; !ok {
		ss.byName[key] = to
		ss.decls = append(ss.decls, fmt.Sprintf("(declare-fun %s (%s) Str)", fn, to.Name))
	}
	return fn
}

// RefTarget returns the pointee sort and the boxed pointer sort of a recursive reference sort.
func (ss *Sorts) RefTarget(ref *Sort) (*Sort, *Sort) {
	el, ok := ss.refLinks[ref.Name]
	if !ok {
		return nil, nil
	}
	return ss.Of(el), ss.Of(types.NewPointer(el))
}

func (ss *Sorts) Decls() string {
	var b strings.Builder
	var names []string
	for n := range ss.refLinks {
		names = append(names, n)
	}
	sort.Strings(names)
	// resolving targets may create new sorts: do it before joining decls
	type lk struct{ ref, tgt, ptr string }
	var lks []lk
	for _, n := range names {
		t, p := ss.RefTarget(ss.byName[n])
		if t != nil && p != nil && p.Kind == KPtr {
			lks = append(lks, lk{n, t.Name, p.Name})
		}
	}
	b.WriteString(strings.Join(ss.decls, "\n") + "\n")
	for _, l := range lks {
		fmt.Fprintf(&b, "(declare-fun deref_%s (%s) %s)\n(declare-fun refof_%s (%s) %s)\n", l.ref, l.ref, l.tgt, l.ref, l.ptr, l.ref)
		fmt.Fprintf(&b, "(assert (= (refof_%s pnil_%s) nil_%s))\n", l.ref, l.ptr, l.ref)
		fmt.Fprintf(&b, "(assert (forall ((v %s)) (! (and (not (= (refof_%s (pmk_%s v)) nil_%s)) (= (deref_%s (refof_%s (pmk_%s v))) v)) :pattern ((refof_%s (pmk_%s v))))))\n", l.tgt, l.ref, l.ptr, l.ref, l.ref, l.ref, l.ptr, l.ref, l.ptr)
	}
	return b.String()
}
