package main

// Symbolic evaluation of Go expressions.

import (
	"go/ast"
	"go/constant"
	"go/token"
	"go/types"
	"strings"
)

func (fv *FV) isPathExpr(e ast.Expr) bool {
	switch x := e.(type) {
	case *ast.ParenExpr:
		return fv.isPathExpr(x.X)
	case *ast.Ident:
		obj := fv.info.ObjectOf(x)
		_, ok := obj.(*types.Var)
		return ok
	case *ast.StarExpr:
		return fv.isPathExpr(x.X)
	case *ast.SelectorExpr:
		if sel := fv.info.Selections[x]; sel != nil {
			if sel.Kind() != types.FieldVal {
				return false
			}
			return fv.isPathExpr(x.X)
		}
		_, ok := fv.info.ObjectOf(x.Sel).(*types.Var)
		return ok
	case *ast.IndexExpr:
		if tv, ok := fv.info.Types[x.X]; ok && tv.IsType() {
			return false
		}
		if _, isStr := fv.info.TypeOf(x.X).Underlying().(*types.Basic); isStr {
			return false
		}
		if _, isSig := fv.info.TypeOf(x.X).Underlying().(*types.Signature); isSig {
			return false
		}
		return fv.isPathExpr(x.X)
	}
	return false
}

func isUnsigned(t types.Type) bool {
	b, ok := t.Underlying().(*types.Basic)
	return ok && b.Info()&types.IsUnsigned != 0
}

func intRange(t types.Type) (lo, hi string, ok bool) {
	b, isB := t.Underlying().(*types.Basic)
	if !isB || b.Info()&types.IsInteger == 0 {
		return "", "", false
	}
	switch b.Kind() {
	case types.Int, types.Int64:
		return "(- 9223372036854775808)", "9223372036854775807", true
	case types.Int32:
		return "(- 2147483648)", "2147483647", true
	case types.Int16:
		return "(- 32768)", "32767", true
	case types.Int8:
		return "(- 128)", "127", true
	case types.Uint, types.Uint64, types.Uintptr:
		return "0", "18446744073709551615", true
	case types.Uint32:
		return "0", "4294967295", true
	case types.Uint16:
		return "0", "65535", true
	case types.Uint8:
		return "0", "255", true
	}
	return "", "", false
}

func (fv *FV) constTerm(tv types.TypeAndValue, pos token.Pos) (Term, bool) {
	if tv.Value == nil {
		return Term{}, false
	}
	so := fv.ss.Of(tv.Type)
	switch tv.Value.Kind() {
	case constant.Int:
		s := tv.Value.ExactString()
		if so.Kind != KInt {
			return Term{}, false
		}
		if strings.HasPrefix(s, "-") {
			return Term{"(- " + s[1:] + ")", SInt}, true
		}
		return Term{s, SInt}, true
	case constant.Bool:
		return tBool(constant.BoolVal(tv.Value)), true
	case constant.String:
		return Term{fv.ss.StrConst(constant.StringVal(tv.Value)), SStr}, true
	}
	return Term{}, false
}

// evalExpr evaluates e; a value of an unsigned type read from memory (dereference, field, element) is not negative.
func (fv *FV) evalExpr(st *State, e ast.Expr) Term {
	t := fv.evalExpr0(st, e)
	if t.Sort == SInt {
		switch stripParens(e).(type) {
		case *ast.StarExpr, *ast.SelectorExpr, *ast.IndexExpr:
			if tt := fv.info.TypeOf(e); tt != nil && isUnsigned(tt) && t.S != "" && !isNumeral(t.S) {
				st.assume(T(sx(">=", t.S, "0"), SBool))
			}
		}
	}
	return t
}

func isNumeral(s string) bool {
	for _, c := range s {
		if c < '0' || c > '9' {
			return false
		}
	}
	return s != ""
}

func (fv *FV) evalExpr0(st *State, e ast.Expr) Term {
	if tv, ok := fv.info.Types[e]; ok && tv.Value != nil {
		if t, ok := fv.constTerm(tv, e.Pos()); ok {
			return t
		}
	}
	switch x := e.(type) {
	case *ast.ParenExpr:
		return fv.evalExpr(st, x.X)
	case *ast.BasicLit:
		fv.abort(x.Pos(), "unsupported literal %s", x.Value)
	case *ast.Ident:
		if x.Name == "nil" {
			t := fv.info.TypeOf(x)
			return Term{fv.ss.Zero(fv.ss.Of(t)), fv.ss.Of(t)}
		}
		obj := fv.info.ObjectOf(x)
		switch o := obj.(type) {
		case *types.Var:
			t := fv.readVar(st, o)
			if isUnsigned(o.Type()) {
				st.assume(T(sx(">=", t.S, "0"), SBool))
			}
			return t
		case *types.Func:
			return fv.funcValue(o)
		case *types.Nil:
			t := fv.info.TypeOf(x)
			return Term{fv.ss.Zero(fv.ss.Of(t)), fv.ss.Of(t)}
		}
		fv.abort(x.Pos(), "unsupported identifier %s", x.Name)
	case *ast.SelectorExpr:
		if fv.isPathExpr(x) {
			p := fv.lvalue(st, x)
			t := fv.readPath(st, p, false)
			if isUnsigned(fv.info.TypeOf(x)) {
				st.assume(T(sx(">=", t.S, "0"), SBool))
			}
			return t
		}
		sel := fv.info.Selections[x]
		if sel == nil {
			obj := fv.info.ObjectOf(x.Sel)
			switch o := obj.(type) {
			case *types.Var:
				return fv.globalVar(o)
			case *types.Func:
				return fv.funcValue(o)
			}
			fv.abort(x.Pos(), "unsupported qualified identifier %s", x.Sel.Name)
		}
		if sel.Kind() == types.FieldVal {
			base := fv.evalExpr(st, x.X)
			cur := base
			t := sel.Recv()
			for _, i := range sel.Index() {
				if pt, ok := types.Unalias(t).Underlying().(*types.Pointer); ok {
					cur = fv.stepRead(st, cur, PathStep{Kind: StDeref, Pos: x.Pos()}, false)
					t = pt.Elem()
				}
				stt := types.Unalias(t).Underlying().(*types.Struct)
				f := stt.Field(i)
				cur = fv.stepRead(st, cur, PathStep{Kind: StField, Field: f.Name(), Pos: x.Pos()}, false)
				t = f.Type()
			}
			return cur
		}
		// method value
		fv.note("method value used as a function value: " + x.Sel.Name)
		return fv.fresh("mval_"+x.Sel.Name, SFn)
	case *ast.StarExpr:
		if fv.isPathExpr(x) {
			return fv.readPath(st, fv.lvalue(st, x), false)
		}
		v := fv.evalExpr(st, x.X)
		return fv.stepRead(st, v, PathStep{Kind: StDeref, Pos: x.Pos()}, false)
	case *ast.IndexExpr:
		if tv, ok := fv.info.Types[x.X]; ok && !tv.IsType() {
			if _, isSig := tv.Type.Underlying().(*types.Signature); isSig {
				// generic function instantiation f[T]
				return fv.evalExpr(st, x.X)
			}
		}
		bt := fv.info.TypeOf(x.X)
		if b, ok := bt.Underlying().(*types.Basic); ok && b.Info()&types.IsString != 0 {
			s := fv.evalExpr(st, x.X)
			i := fv.evalExpr(st, x.Index)
			fv.assert(st, "index", tAnd(T(sx("<=", "0", i.S), SBool), T(sx("<", i.S, sx("str_len", s.S)), SBool)), x.Pos(), "string index in range")
			r := fv.fresh("byte", SInt)
			st.assume(tAnd(T(sx("<=", "0", r.S), SBool), T(sx("<=", r.S, "255"), SBool)))
			return r
		}
		if fv.isPathExpr(x) {
			p := fv.lvalue(st, x)
			return fv.readPath(st, p, false)
		}
		base := fv.evalExpr(st, x.X)
		k := fv.evalExpr(st, x.Index)
		if base.Sort.Kind == KMap {
			return fv.ss.mpGet(base, k)
		}
		return fv.stepRead(st, base, PathStep{Kind: StIndex, Key: k, Pos: x.Pos()}, false)
	case *ast.SliceExpr:
		return fv.evalSliceExpr(st, x)
	case *ast.UnaryExpr:
		return fv.evalUnary(st, x)
	case *ast.BinaryExpr:
		return fv.evalBinary(st, x)
	case *ast.CallExpr:
		rs := fv.evalCall(st, x)
		if len(rs) != 1 {
			fv.abort(x.Pos(), "call yields %d values in single-value context", len(rs))
		}
		return rs[0]
	case *ast.CompositeLit:
		return fv.evalCompositeLit(st, x)
	case *ast.FuncLit:
		return fv.fresh("closure", SFn)
	case *ast.TypeAssertExpr:
		v := fv.evalExpr(st, x.X)
		if x.Type == nil {
			fv.abort(x.Pos(), "type switch guard outside switch")
		}
		t, ok := fv.typeAssert(st, v, fv.info.TypeOf(x.Type), x.Pos())
		for _, u := range fv.fc.Unreachable {
			if strings.Contains(exprStr(fv, x), u) {
				fv.note("type assertion assumed to succeed by contract: " + exprStr(fv, x))
				st.assume(ok)
				return t
			}
		}
		fv.assert(st, "type-assert", ok, x.Pos(), "unchecked type assertion "+exprStr(fv, x))
		return t
	case *ast.KeyValueExpr:
		fv.abort(x.Pos(), "unexpected key-value expression")
	}
	fv.abort(e.Pos(), "unsupported expression %T", e)
	return Term{}
}

func exprStr(fv *FV, e ast.Expr) string {
	return types.ExprString(e)
}

func (fv *FV) funcValue(f *types.Func) Term {
	name := "fn_" + mangle(f.FullName())
	d := "(declare-const " + name + " Fn)"
	for _, x := range fv.decls {
		if x == d {
			return Term{name, SFn}
		}
	}
	fv.decls = append(fv.decls, d, "(assert (not (= "+name+" fn_nil)))")
	return Term{name, SFn}
}

// typeAssert returns the payload and the success condition of v.(T).
func (fv *FV) typeAssert(st *State, v Term, target types.Type, pos token.Pos) (Term, Term) {
	tso := fv.ss.Of(target)
	switch v.Sort.Kind {
	case KSum:
		if c := v.Sort.CtorFor(target); c != nil {
			return Term{sx(c.Acc, v.S), c.Payload}, Term{"(" + c.Tester + " " + v.S + ")", SBool}
		}
		if _, isTP := types.Unalias(target).(*types.TypeParam); isTP {
			// nothing is known about the type argument: the assertion may fail (the unchecked form is an obligation
			// that cannot be discharged; the comma-ok form explores both outcomes)
			fv.note("type assertion to a type parameter: success unknown: " + target.String())
			return fv.fresh("astp", tso), fv.fresh("astpok", SBool)
		}
		// assertion to an interface type (e.g. HasAsset): success unknown, payload unknown
		if _, isI := target.Underlying().(*types.Interface); isI {
			var ok []Term
			for i := range v.Sort.Ctors {
				c := &v.Sort.Ctors[i]
				if types.Implements(c.GoType, target.Underlying().(*types.Interface)) {
					ok = append(ok, Term{"(" + c.Tester + " " + v.S + ")", SBool})
				}
			}
			if tso == v.Sort {
				return v, tOr(ok...)
			}
			// represent the narrowed interface value by the same sum value when sorts differ: opaque
			r := fv.fresh("iface", tso)
			fv.note("interface-to-interface assertion abstracted: " + types.TypeString(target, nil))
			// remember the link so that method calls on it can be resolved
			fv.ifaceLink[r.S] = v
			return r, tOr(ok...)
		}
		return Term{fv.ss.Zero(tso), tso}, tBool(false)
	default:
		// opaque source: decided by the dynamic type tag; the payload is the unboxed value
		if v.Sort.Kind == KOpaque {
			if _, isI := target.Underlying().(*types.Interface); !isI {
				_, un := fv.ss.BoxFn(tso, v.Sort, target)
				dt := fv.ss.DynTypeFn(v.Sort)
				return Term{sx(un, v.S), tso}, Term{sx("=", sx(dt, v.S), fv.ss.StrConst("type:"+shortTypeName(target))), SBool}
			}
		}
		if v.Sort.Kind == KOpaque && tso.Kind == KSum {
			// opaque interface value asserted to a closed-sum interface: it succeeds exactly when the dynamic type is one
			// of the implementations, and the result is that constructor applied to the unboxed value
			dt := fv.ss.DynTypeFn(v.Sort)
			r := fv.fresh("assert", tso)
			var oks []Term
			for i := range tso.Ctors {
				c := &tso.Ctors[i]
				if c.GoType == nil || c.Payload == nil || c.Acc == "" {
					continue
				}
				_, un := fv.ss.BoxFn(c.Payload, v.Sort, c.GoType)
				has := Term{sx("=", sx(dt, v.S), fv.ss.StrConst("type:"+shortTypeName(c.GoType))), SBool}
				oks = append(oks, has)
				st.assume(tImp(has, tEq(r, Term{sx(c.Name, sx(un, v.S)), tso})))
			}
			if len(oks) > 0 {
				return r, tOr(oks...)
			}
		}
		r := fv.fresh("assert", tso)
		okc := fv.fresh("assertok", SBool)
		fv.note("type assertion on opaque interface value abstracted (result and success unconstrained)")
		return r, okc
	}
}

func (fv *FV) evalUnary(st *State, x *ast.UnaryExpr) Term {
	switch x.Op {
	case token.NOT:
		return tNot(fv.evalExpr(st, x.X))
	case token.SUB:
		v := fv.evalExpr(st, x.X)
		return Term{sx("-", v.S), v.Sort}
	case token.ADD:
		return fv.evalExpr(st, x.X)
	case token.AND:
		// address-of: boxed copy
		inner := x.X
		if p, ok := inner.(*ast.ParenExpr); ok {
			inner = p.X
		}
		v := fv.evalExpr(st, inner)
		pt := fv.info.TypeOf(x)
		pso := fv.ss.Of(pt)
		switch pso.Kind {
		case KBig:
			return bigMk(v)
		case KPtr:
			if _, isLit := inner.(*ast.CompositeLit); !isLit {
				fv.note("address-of copies the value (later writes through the pointer are not reflected in the variable)")
			}
			return ptrMk(pso, v)
		case KOpaque:
			r := fv.fresh("addr", pso)
			st.assume(tNot(tEq(r, Term{fv.ss.Zero(pso), pso})))
			return r
		}
		fv.abort(x.Pos(), "address-of yields sort %s", pso.Name)
	case token.ARROW:
		fv.abort(x.Pos(), "channel receive is outside the subset")
	}
	fv.abort(x.Pos(), "unsupported unary operator %s", x.Op)
	return Term{}
}

func (fv *FV) evalBinary(st *State, x *ast.BinaryExpr) Term {
	switch x.Op {
	case token.LAND, token.LOR:
		a := fv.evalExpr(st, x.X)
		// evaluate rhs under the guard so that its safety obligations are conditional
		sub := st.clone()
		if x.Op == token.LAND {
			sub.assume(a)
		} else {
			sub.assume(tNot(a))
		}
		n0 := len(sub.pc)
		b := fv.evalExpr(sub, x.Y)
		// facts learnt while evaluating rhs (bindings) are kept as implications
		guard := a
		if x.Op == token.LOR {
			guard = tNot(a)
		}
		for _, f := range sub.pc[n0:] {
			st.assume(tImp(guard, Term{f, SBool}))
		}
		// propagate state changes (calls in rhs are rare; take rhs state for vars when identical keys)
		for _, k := range sortedObjs(sub.vars) {
			v := sub.vars[k]
			if old, ok := st.vars[k]; !ok || old.S != v.S {
				if ok {
					st.vars[k] = tIte(guard, v, old)
				}
			}
		}
		for _, k := range sortedKeys(sub.ghost) {
			v := sub.ghost[k]
			if old := st.ghost[k]; old.S != v.S {
				st.ghost[k] = tIte(guard, v, old)
			}
		}
		if x.Op == token.LAND {
			return tAnd(a, b)
		}
		return tOr(a, b)
	}
	a := fv.evalExpr(st, x.X)
	b := fv.evalExpr(st, x.Y)
	// nil literal typing is handled by evalExpr through info.TypeOf
	switch x.Op {
	case token.EQL, token.NEQ:
		var r Term
		if isNilExpr(x.Y) {
			n, err := fv.ss.isNil(a)
			if err != nil {
				fv.abort(x.Pos(), "%v", err)
			}
			r = n
		} else if isNilExpr(x.X) {
			n, err := fv.ss.isNil(b)
			if err != nil {
				fv.abort(x.Pos(), "%v", err)
			}
			r = n
		} else {
			if a.Sort != b.Sort {
				a, b = fv.unifyIface(st, a, b, x)
			}
			r = tEq(a, b)
		}
		if x.Op == token.NEQ {
			return tNot(r)
		}
		return r
	case token.LSS, token.LEQ, token.GTR, token.GEQ:
		if a.Sort == SStr {
			switch x.Op {
			case token.LSS:
				return T(sx("str_lt", a.S, b.S), SBool)
			case token.GTR:
				return T(sx("str_lt", b.S, a.S), SBool)
			case token.LEQ:
				return tNot(T(sx("str_lt", b.S, a.S), SBool))
			default:
				return tNot(T(sx("str_lt", a.S, b.S), SBool))
			}
		}
		if a.Sort != SInt {
			fv.abort(x.Pos(), "ordering on sort %s", a.Sort.Name)
		}
		return T(sx(x.Op.String(), a.S, b.S), SBool)
	case token.ADD:
		if a.Sort == SStr {
			return T(sx("str_cat", a.S, b.S), SStr)
		}
		r := T(sx("+", a.S, b.S), SInt)
		fv.overflowCheck(st, r, fv.info.TypeOf(x), x.Pos())
		return r
	case token.SUB:
		r := T(sx("-", a.S, b.S), SInt)
		if isUnsigned(fv.info.TypeOf(x)) {
			fv.assert(st, "uint-underflow", T(sx(">=", r.S, "0"), SBool), x.Pos(), "unsigned subtraction does not wrap: "+exprStr(fv, x))
		} else {
			fv.overflowCheck(st, r, fv.info.TypeOf(x), x.Pos())
		}
		return r
	case token.MUL:
		r := T(sx("*", a.S, b.S), SInt)
		fv.overflowCheck(st, r, fv.info.TypeOf(x), x.Pos())
		return r
	case token.QUO:
		if a.Sort != SInt {
			fv.abort(x.Pos(), "division on sort %s", a.Sort.Name)
		}
		fv.assert(st, "div-zero", tNot(tEq(b, tInt(0))), x.Pos(), "division by zero")
		// Go truncates toward zero
		q := sx("div", a.S, b.S)
		trunc := sx("ite", sx("or", sx(">=", a.S, "0"), sx("=", sx("mod", a.S, b.S), "0")), q, sx("ite", sx(">", b.S, "0"), sx("+", q, "1"), sx("-", q, "1")))
		return T(trunc, SInt)
	case token.REM:
		fv.assert(st, "div-zero", tNot(tEq(b, tInt(0))), x.Pos(), "modulo by zero")
		m := sx("mod", a.S, b.S)
		return T(sx("ite", sx("or", sx(">=", a.S, "0"), sx("=", m, "0")), m, sx("-", m, sx("abs", b.S))), SInt)
	}
	fv.abort(x.Pos(), "unsupported binary operator %s", x.Op)
	return Term{}
}

func (fv *FV) overflowCheck(st *State, r Term, t types.Type, pos token.Pos) {
	if fv.fc.Opts["overflow"] != "on" {
		return
	}
	lo, hi, ok := intRange(t)
	if !ok {
		return
	}
	fv.assert(st, "int-overflow", tAnd(T(sx("<=", lo, r.S), SBool), T(sx("<=", r.S, hi), SBool)), pos, "machine integer arithmetic stays in range")
}

func isNilExpr(e ast.Expr) bool {
	if p, ok := e.(*ast.ParenExpr); ok {
		return isNilExpr(p.X)
	}
	id, ok := e.(*ast.Ident)
	return ok && id.Name == "nil"
}

// unifyIface handles comparisons between an interface-typed operand and a concrete one.
func (fv *FV) unifyIface(st *State, a, b Term, x *ast.BinaryExpr) (Term, Term) {
	if a.Sort.Kind == KSum && b.Sort.Kind != KSum {
		return a, fv.box(st, b, fv.info.TypeOf(x.Y), a.Sort, x.Pos())
	}
	if b.Sort.Kind == KSum && a.Sort.Kind != KSum {
		return fv.box(st, a, fv.info.TypeOf(x.X), b.Sort, x.Pos()), b
	}
	fv.abort(x.Pos(), "comparison of sorts %s and %s", a.Sort.Name, b.Sort.Name)
	return a, b
}

// box converts a concrete value to an interface sort.
func (fv *FV) box(st *State, v Term, from types.Type, to *Sort, pos token.Pos) Term {
	if v.Sort == to {
		return v
	}
	switch to.Kind {
	case KSum:
		if c := to.CtorFor(from); c != nil {
			return Term{sx(c.Name, v.S), to}
		}
		if v.Sort.Kind == KOpaque {
			if b, ok := from.Underlying().(*types.Basic); ok && b.Kind() == types.UntypedNil {
				return Term{to.NilCtor(), to}
			}
			// value of a type parameter / opaque type converted to the interface: unknown variant
			r := fv.fresh("variant", to)
			st.assume(tNot(tEq(r, Term{to.NilCtor(), to})))
			return r
		}
		fv.abort(pos, "%s is not a variant of %s", from, to.Name)
	case KErr:
		// concrete error value converted to error: fresh non-nil error, classified by its type name
		r := fv.fresh("err", SErr)
		st.assume(tNot(tEq(r, T("err_nil", SErr))))
		st.assume(T(sx("errIs", r.S, fv.ss.StrConst("errclass:"+typeBaseName(from))), SBool))
		if q := typeQualName(from); q != "" {
			// also classified by its package-qualified name (nothing says it is of another package's type of that name)
			st.assume(T(sx("errIs", r.S, fv.ss.StrConst("errclass:"+q)), SBool))
		}
		return r
	case KOpaque:
		if _, ptr := fv.ss.RefTarget(to); ptr != nil && ptr == v.Sort {
			return Term{sx("refof_"+to.Name, v.S), to}
		}
		if v.Sort.Kind == KOpaque && from != nil {
			if _, isTP := types.Unalias(from).(*types.TypeParam); !isTP {
				if _, isI := from.Underlying().(*types.Interface); isI {
					if tgt, _ := fv.ss.RefTarget(v.Sort); tgt == nil {
						// interface value converted to another interface type: dynamic type and value are preserved
						return Term{sx(fv.ss.IConvFn(v.Sort, to), v.S), to}
					}
				}
			}
		}
		// deterministic injection into the opaque sort
		fn, _ := fv.ss.BoxFn(v.Sort, to, from)
		r := Term{sx(fn, v.S), to}
		if v.Sort.Kind == KPtr || v.Sort.Kind == KStruct {
			st.assume(tNot(tEq(r, Term{fv.ss.Zero(to), to})))
		}
		fv.boxedFrom[r.S] = boxInfo{v, from}
		return r
	case KFn:
		return v
	}
	if (v.Sort.Kind == KMap && to.Kind == KMap) || (v.Sort.Kind == KSlice && to.Kind == KSlice) {
		// the same Go type seen through a recursive reference (a map/slice field of a recursive struct) and directly:
		// the unfolded value is not tracked; an arbitrary well-formed value of the target sort over-approximates it
		fv.note("value of a recursive data structure passed on as an arbitrary value of its type (contents not tracked)")
		return fv.fresh("unfold", to)
	}
	fv.abort(pos, "cannot convert sort %s to %s", v.Sort.Name, to.Name)
	return v
}

// typeQualName: "<package name>.<type name>" of a named (or pointer to named) type.
func typeQualName(t types.Type) string {
	t = types.Unalias(t)
	if p, ok := t.(*types.Pointer); ok {
		t = types.Unalias(p.Elem())
	}
	if n, ok := t.(*types.Named); ok && n.Obj().Pkg() != nil {
		return n.Obj().Pkg().Name() + "." + n.Obj().Name()
	}
	return ""
}

func typeBaseName(t types.Type) string {
	t = types.Unalias(t)
	if p, ok := t.(*types.Pointer); ok {
		t = types.Unalias(p.Elem())
	}
	if n, ok := t.(*types.Named); ok {
		return n.Obj().Name()
	}
	return t.String()
}

// coerceRef converts between the boxed representation of a pointer (option T) and the reference
// representation used inside recursive struct types.
func (fv *FV) coerceRef(v Term, want *Sort) (Term, bool) {
	if want.Kind == KOpaque && v.Sort.Kind == KPtr {
		if _, ptr := fv.ss.RefTarget(want); ptr != nil && ptr == v.Sort {
			return Term{sx("refof_"+want.Name, v.S), want}, true
		}
	}
	if v.Sort.Kind == KOpaque && want.Kind == KPtr {
		if _, ptr := fv.ss.RefTarget(v.Sort); ptr != nil && ptr == want {
			return tIte(tEq(v, Term{fv.ss.Zero(v.Sort), v.Sort}), ptrNil(want), ptrMk(want, Term{sx("deref_"+v.Sort.Name, v.S), want.Elem})), true
		}
	}
	return v, false
}

// convertTo adapts a value to the sort expected at an assignment / parameter position.
func (fv *FV) convertTo(st *State, v Term, from types.Type, to types.Type, pos token.Pos) Term {
	tso := fv.ss.Of(to)
	if v.Sort == tso {
		return v
	}
	if c, ok := fv.coerceRef(v, tso); ok {
		return c
	}
	if from == nil {
		fv.abort(pos, "cannot convert sort %s to %s", v.Sort.Name, tso.Name)
	}
	if b, ok := from.Underlying().(*types.Basic); ok && b.Kind() == types.UntypedNil {
		return Term{fv.ss.Zero(tso), tso}
	}
	return fv.box(st, v, from, tso, pos)
}

func (fv *FV) evalSliceExpr(st *State, x *ast.SliceExpr) Term {
	base := fv.evalExpr(st, x.X)
	if base.Sort.Kind == KStr {
		// the contents of the substring are abstracted; its bounds are checked and its length is known
		fv.note("string slicing: contents abstracted, bounds checked")
		slo := tInt(0)
		shi := T(sx("str_len", base.S), SInt)
		if x.Low != nil {
			slo = fv.bind(st, fv.evalExpr(st, x.Low), "lo")
		}
		if x.High != nil {
			shi = fv.bind(st, fv.evalExpr(st, x.High), "hi")
		}
		fv.assert(st, "slice-bounds", tAnd(T(sx("<=", "0", slo.S), SBool), T(sx("<=", slo.S, shi.S), SBool), T(sx("<=", shi.S, sx("str_len", base.S)), SBool)), x.Pos(), "string slice bounds in range")
		r := fv.fresh("substr", SStr)
		st.assume(T(sx("=", sx("str_len", r.S), sx("-", shi.S, slo.S)), SBool))
		return r
	}
	if base.Sort.Kind != KSlice {
		fv.abort(x.Pos(), "slice of sort %s", base.Sort.Name)
	}
	lo := tInt(0)
	hi := slLen(base)
	if x.Low != nil {
		lo = fv.bind(st, fv.evalExpr(st, x.Low), "lo")
	}
	if x.High != nil {
		hi = fv.bind(st, fv.evalExpr(st, x.High), "hi")
	}
	// bounds (cap is not modelled: len is used, which is at most cap — stricter than Go)
	fv.assert(st, "slice-bounds", tAnd(T(sx("<=", "0", lo.S), SBool), T(sx("<=", lo.S, hi.S), SBool), T(sx("<=", hi.S, slLen(base).S), SBool)), x.Pos(), "slice bounds in range")
	if lo.S == "0" {
		return mkSlice(base.Sort, slArr(base).S, hi.S, "false")
	}
	// shifted view: fresh array with pointwise definition
	arr := fv.fresh("sub", &Sort{Name: "(Array Int " + base.Sort.Elem.Name + ")", Kind: KArray, Key: SInt, Elem: base.Sort.Elem})
	n := sx("-", hi.S, lo.S)
	st.assume(T("(forall ((j Int)) (! (=> (and (<= 0 j) (< j "+n+")) (= (select "+arr.S+" j) (select "+slArr(base).S+" (+ "+lo.S+" j)))) :pattern ((select "+arr.S+" j))))", SBool))
	// fold facts: F(base, lo+j) = F(base, lo) + F(sub, j)
	for _, f := range fv.reg.folds[base.Sort.Elem.Name] {
		fv.foldShiftFact(st, f, slArr(base).S, arr.S, lo.S, n)
	}
	return mkSlice(base.Sort, arr.S, n, "false")
}

func (fv *FV) foldQuant(f *SpecFn) (decl string, names string) {
	for i := 1; i < len(f.Params); i++ {
		decl += " (x" + f.PNames[i] + " " + f.Params[i].Name + ")"
		names += " x" + f.PNames[i]
	}
	return
}

// foldShiftFact: sub[j] = base[lo+j] for j<n  ==>  F(base, lo+j) = F(base, lo) + F(sub, j)   (justified by the concat lemma)
func (fv *FV) foldShiftFact(st *State, f *SpecFn, base, sub, lo, n string) {
	d, nm := fv.foldQuant(f)
	st.assume(T("(forall ((j Int)"+d+") (! (=> (and (<= 0 j) (<= j "+n+")) (= ("+f.SMT+" "+base+" (+ "+lo+" j)"+nm+") (+ ("+f.SMT+" "+base+" "+lo+nm+") ("+f.SMT+" "+sub+" j"+nm+")))) :pattern (("+f.SMT+" "+sub+" j"+nm+"))))", SBool))
}

func (fv *FV) evalCompositeLit(st *State, x *ast.CompositeLit) Term {
	t := fv.info.TypeOf(x)
	so := fv.ss.Of(t)
	switch u := types.Unalias(t).Underlying().(type) {
	case *types.Struct:
		if isBigIntNamed(t) {
			return tInt(0)
		}
		if isBigRatNamed(t) {
			return Term{fv.ss.Zero(SRat), SRat} // the zero big.Rat denotes 0/1
		}
		if so.Kind == KOpaque {
			r := fv.fresh("lit", so)
			for _, el := range x.Elts {
				if kv, ok := el.(*ast.KeyValueExpr); ok {
					fv.evalExpr(st, kv.Value)
				} else {
					fv.evalExpr(st, el)
				}
			}
			return r
		}
		vals := make([]string, len(so.Fields))
		for i, f := range so.Fields {
			vals[i] = fv.ss.Zero(f.Sort)
		}
		for i, el := range x.Elts {
			if kv, ok := el.(*ast.KeyValueExpr); ok {
				name := kv.Key.(*ast.Ident).Name
				for j, f := range so.Fields {
					if f.Name == name {
						v := fv.evalExpr(st, kv.Value)
						if v.Sort != f.Sort {
							if c, ok := fv.coerceRef(v, f.Sort); ok {
								v = c
							} else {
								v = fv.convertTo(st, v, fv.info.TypeOf(kv.Value), u.Field(j).Type(), kv.Pos())
							}
						}
						vals[j] = v.S
					}
				}
			} else {
				v := fv.evalExpr(st, el)
				v = fv.convertTo(st, v, fv.info.TypeOf(el), u.Field(i).Type(), el.Pos())
				vals[i] = v.S
			}
		}
		if len(vals) == 0 {
			return Term{so.Mk, so}
		}
		return Term{sx(so.Mk, vals...), so}
	case *types.Slice:
		arr := "((as const (Array Int " + so.Elem.Name + ")) " + fv.ss.Zero(so.Elem) + ")"
		for i, el := range x.Elts {
			if _, ok := el.(*ast.KeyValueExpr); ok {
				fv.abort(el.Pos(), "keyed slice literal")
			}
			var v Term
			if cl, ok := el.(*ast.CompositeLit); ok && cl.Type == nil {
				v = fv.evalCompositeLit(st, cl)
			} else {
				v = fv.evalExpr(st, el)
				v = fv.convertTo(st, v, fv.info.TypeOf(el), u.Elem(), el.Pos())
			}
			arr = sx("store", arr, tInt(int64(i)).S, v.S)
		}
		return mkSlice(so, arr, tInt(int64(len(x.Elts))).S, "false")
	case *types.Map:
		dom := "((as const (Array " + so.Key.Name + " Bool)) false)"
		val := "((as const (Array " + so.Key.Name + " " + so.Elem.Name + ")) " + fv.ss.Zero(so.Elem) + ")"
		for _, el := range x.Elts {
			kv := el.(*ast.KeyValueExpr)
			k := fv.evalExpr(st, kv.Key)
			var v Term
			if cl, ok := kv.Value.(*ast.CompositeLit); ok && cl.Type == nil {
				v = fv.evalCompositeLit(st, cl)
			} else {
				v = fv.evalExpr(st, kv.Value)
				v = fv.convertTo(st, v, fv.info.TypeOf(kv.Value), u.Elem(), kv.Pos())
			}
			dom = sx("store", dom, k.S, "true")
			val = sx("store", val, k.S, v.S)
		}
		return mkMap(so, dom, val, "false")
	}
	fv.abort(x.Pos(), "unsupported composite literal of type %s", t)
	return Term{}
}
