package main

// Reading contract files (comment-only Go files, build tag verif) and binding them to the real
// declarations of the loaded packages.

import (
	"crypto/sha256"
	"fmt"
	"go/ast"
	"go/parser"
	"go/token"
	"go/types"
	"os"
	"path/filepath"
	"sort"
	"strings"

	"golang.org/x/tools/go/packages"
)

type Clause struct {
	Kind string
	Text string
	X    *SX
	Line string // file:line of the clause
}

type LoopSpec struct {
	Ordinal    string
	Index      string // name given to the hidden range index
	Visited    string // name of ghost visited set for range-over-map
	Invariants []*Clause
	Decreases  *Clause
	Mentions   []*Clause // ground terms introduced at the start of each iteration (E-matching hints, no logical content)
	Reveal     []string  // opaque spec functions whose definition is visible to the obligations of this loop's body
}

type FnParamSpec struct {
	Name     string
	Params   []string // names for the parameters of the function value
	Results  []string
	Requires []*Clause
	Ensures  []*Clause
	Modifies []string
}

type FuncContract struct {
	Pkg       *packages.Package
	File      string
	Header    string
	Name      string
	RecvName  string
	RecvType  string
	ExtPkg    string // alias of external package for `assumed func pkg.F`
	Params    []string
	Results   []string
	Props     []string
	Requires  []*Clause
	Ensures   []*Clause
	Modifies  []string
	Loops     map[string]*LoopSpec
	FnParams  map[string]*FnParamSpec
	Assumed   bool
	Opts      map[string]string
	Decl      *ast.FuncDecl
	Obj       *types.Func
	SrcHash   string
	Lits      map[string]*FuncContract // contracts of function literals "lit N"
	Notes     []string
	litNode     *ast.FuncLit
	Reveal      []string // opaque spec functions revealed to every obligation of the function
	Unreachable []string // substrings of panic messages assumed unreachable (listed as assumptions)
}

type SpecDecl struct {
	Induct string // lemma: induction variable ("" = none)
	Trig   []*SX  // lemma: trigger groups
	Props  []string // pin: owning properties
	Kind   string // sumfold, define, declare, axiom, ghost, lemma
	Name   string
	Params []QVar
	Ret    *TypeX
	Body   *SX
	Text   string
	Pkg    *packages.Package
	Line   string
}

type Program struct {
	Fset      *token.FileSet
	Pkgs      []*packages.Package
	AllPkgs   map[string]*packages.Package
	Contracts map[string]*FuncContract // key: types.Func full name (origin)
	Order     []*FuncContract
	Specs     []*SpecDecl
	Errors    []string
	sumCache  map[string][]types.Type
	RepoDir   string
}

var funcKeywords = map[string]bool{"property": true, "requires": true, "ensures": true, "modifies": true, "loop": true,
	"invariant": true, "decreases": true, "fnparam": true, "index": true, "visited": true, "opt": true, "lit": true, "note": true, "end": true, "assume-unreachable": true, "mention": true, "reveal": true}
var topKeywords = map[string]bool{"func": true, "assumed": true, "sumfold": true, "define": true, "declare": true, "axiom": true, "ghost": true, "function": true, "nnfold": true, "lemma": true, "opaque": true, "pin": true}

func LoadProgram(repo string, patterns []string) (*Program, error) {
	fset := token.NewFileSet()
	cfg := &packages.Config{
		Mode:       packages.NeedName | packages.NeedSyntax | packages.NeedTypes | packages.NeedTypesInfo | packages.NeedFiles | packages.NeedCompiledGoFiles | packages.NeedImports | packages.NeedDeps,
		Dir:        repo,
		Fset:       fset,
		BuildFlags: []string{"-tags=verif"},
		ParseFile: func(fset *token.FileSet, filename string, src []byte) (*ast.File, error) {
			return parser.ParseFile(fset, filename, src, parser.ParseComments|parser.SkipObjectResolution)
		},
	}
	pkgs, err := packages.Load(cfg, patterns...)
	if err != nil {
		return nil, err
	}
	p := &Program{Fset: fset, Pkgs: pkgs, AllPkgs: map[string]*packages.Package{}, Contracts: map[string]*FuncContract{}, sumCache: map[string][]types.Type{}, RepoDir: repo}
	packages.Visit(pkgs, nil, func(pk *packages.Package) { p.AllPkgs[pk.PkgPath] = pk })
	for _, pk := range pkgs {
		for _, e := range pk.Errors {
			p.Errors = append(p.Errors, fmt.Sprintf("%s: %v", pk.PkgPath, e))
		}
	}
	return p, nil
}

// sumImpls returns the closed set of implementing types for the interfaces we model as sums.
func (p *Program) sumImpls(iface *types.Named) []types.Type {
	key := types.TypeString(iface, nil)
	if v, ok := p.sumCache[key]; ok {
		return v
	}
	var allow bool
	switch key {
	case "github.com/formancehq/ledger/internal/machine.Value",
		"github.com/formancehq/ledger/internal/machine/vm/program.Resource",
		"github.com/formancehq/ledger/internal.LogPayload":
		allow = true
	}
	if !allow {
		p.sumCache[key] = nil
		return nil
	}
	it := iface.Underlying().(*types.Interface)
	var res []types.Type
	seen := map[string]bool{}
	var pkgPaths []string
	for path := range p.AllPkgs {
		if strings.HasPrefix(path, "github.com/formancehq/ledger/internal") {
			pkgPaths = append(pkgPaths, path)
		}
	}
	sort.Strings(pkgPaths)
	for _, path := range pkgPaths {
		pk := p.AllPkgs[path]
		if pk.Types == nil {
			continue
		}
		if iface.Obj().Pkg() == nil || path != iface.Obj().Pkg().Path() {
			continue // variants are the implementing types declared next to the interface
		}
		sc := pk.Types.Scope()
		for _, n := range sc.Names() {
			tn, ok := sc.Lookup(n).(*types.TypeName)
			if !ok || tn.IsAlias() {
				continue
			}
			T := tn.Type()
			if _, isI := T.Underlying().(*types.Interface); isI {
				continue
			}
			if nt, ok := T.(*types.Named); ok && nt.TypeParams() != nil && nt.TypeParams().Len() > 0 {
				continue
			}
			cands := []types.Type{T, types.NewPointer(T)}
			if isBigIntNamed(T) {
				cands = []types.Type{types.NewPointer(T)} // big integers are handled through pointers (machine.Number = *MonetaryInt)
			}
			for _, cand := range cands {
				if types.Implements(cand, it) {
					k := types.TypeString(cand, nil)
					if !seen[k] {
						seen[k] = true
						res = append(res, cand)
					}
					break
				}
			}
		}
	}
	p.sumCache[key] = res
	return res
}

type rawLine struct {
	text string
	pos  string
}

func (p *Program) ReadContracts() {
	for _, pk := range p.Pkgs {
		for i, f := range pk.Syntax {
			fn := pk.CompiledGoFiles[i]
			if !strings.HasSuffix(fn, "_verif.go") {
				continue
			}
			var lines []rawLine
			for _, cg := range f.Comments {
				for _, c := range cg.List {
					if strings.HasPrefix(c.Text, "//@") {
						pos := p.Fset.Position(c.Pos())
						lines = append(lines, rawLine{strings.TrimSpace(strings.TrimPrefix(c.Text, "//@")), fmt.Sprintf("%s:%d", filepath.Base(pos.Filename), pos.Line)})
					}
				}
			}
			p.parseLines(pk, fn, lines)
		}
	}
}

// ReadExtraSpecFile reads a .spec file from /verif/contracts (assumed externals, prelude) bound to package pk.
func (p *Program) ReadSpecFile(path string) error {
	data, err := os.ReadFile(path)
	if err != nil {
		return err
	}
	var lines []rawLine
	var pk *packages.Package
	flush := func() {
		if pk != nil && len(lines) > 0 {
			p.parseLines(pk, path, lines)
		}
		lines = nil
	}
	for i, l := range strings.Split(string(data), "\n") {
		l = strings.TrimSpace(l)
		if l == "" || strings.HasPrefix(l, "#") {
			continue
		}
		if strings.HasPrefix(l, "package ") {
			flush()
			path2 := strings.TrimSpace(strings.TrimPrefix(l, "package "))
			pk = p.AllPkgs[path2]
			if pk == nil {
				p.Errors = append(p.Errors, fmt.Sprintf("%s:%d: package %s not loaded", path, i+1, path2))
			}
			continue
		}
		lines = append(lines, rawLine{l, fmt.Sprintf("%s:%d", filepath.Base(path), i+1)})
	}
	flush()
	return nil
}

func firstWord(s string) (string, string) {
	s = strings.TrimSpace(s)
	i := strings.IndexAny(s, " \t")
	if i < 0 {
		return s, ""
	}
	return s[:i], strings.TrimSpace(s[i+1:])
}

func (p *Program) errf(pos string, f string, a ...any) {
	p.Errors = append(p.Errors, pos+": "+fmt.Sprintf(f, a...))
}

func (p *Program) parseLines(pk *packages.Package, file string, raw []rawLine) {
	// join continuation lines
	var lines []rawLine
	for _, l := range raw {
		if l.text == "" {
			continue
		}
		w, _ := firstWord(l.text)
		w = strings.TrimSuffix(w, ":")
		if topKeywords[w] || funcKeywords[w] {
			lines = append(lines, l)
		} else if len(lines) > 0 {
			lines[len(lines)-1].text += " " + l.text
		} else {
			p.errf(l.pos, "stray contract line %q", l.text)
		}
	}
	var cur *FuncContract
	var root *FuncContract
	var curLoop *LoopSpec
	var curFn *FnParamSpec
	mkClause := func(kind, text, pos string) *Clause {
		x, err := ParseSpecExpr(text)
		if err != nil {
			p.errf(pos, "%v", err)
			return nil
		}
		return &Clause{Kind: kind, Text: text, X: x, Line: pos}
	}
	for _, l := range lines {
		w, rest := firstWord(l.text)
		switch w {
		case "func", "assumed":
			assumed := false
			hdr := l.text
			if w == "assumed" {
				assumed = true
				hdr = rest
			}
			fc := p.parseHeader(pk, hdr, l.pos)
			if fc == nil {
				cur = nil
				continue
			}
			fc.Assumed = assumed
			fc.File = file
			cur, root, curLoop, curFn = fc, fc, nil, nil
			p.Order = append(p.Order, fc)
		case "sumfold", "define", "declare", "axiom", "ghost", "function", "nnfold", "lemma", "opaque", "pin":
			cur = nil
			p.parseSpecDecl(pk, w, rest, l.pos)
		default:
			if cur == nil {
				p.errf(l.pos, "clause outside of a func block: %q", l.text)
				continue
			}
			switch strings.TrimSuffix(w, ":") {
			case "property":
				cur.Props = append(cur.Props, strings.Fields(rest)...)
			case "opt":
				k, v := firstWord(rest)
				cur.Opts[k] = v
			case "note":
				cur.Notes = append(cur.Notes, rest)
			case "assume-unreachable":
				// assume-unreachable "substring of the panic message" reason...
				if i := strings.Index(rest, "\""); i >= 0 {
					if j := strings.Index(rest[i+1:], "\""); j >= 0 {
						cur.Unreachable = append(cur.Unreachable, rest[i+1:i+1+j])
						cur.Notes = append(cur.Notes, "ASSUMED unreachable panic "+rest)
					}
				}
			case "modifies":
				names := strings.FieldsFunc(rest, func(r rune) bool { return r == ',' || r == ' ' })
				if curFn != nil {
					curFn.Modifies = append(curFn.Modifies, names...)
				} else {
					cur.Modifies = append(cur.Modifies, names...)
				}
			case "requires":
				if c := mkClause("requires", rest, l.pos); c != nil {
					if curFn != nil {
						curFn.Requires = append(curFn.Requires, c)
					} else {
						cur.Requires = append(cur.Requires, c)
					}
				}
			case "ensures":
				if c := mkClause("ensures", rest, l.pos); c != nil {
					if curFn != nil {
						curFn.Ensures = append(curFn.Ensures, c)
					} else {
						cur.Ensures = append(cur.Ensures, c)
					}
				}
			case "loop":
				ord := strings.TrimSuffix(strings.TrimSpace(rest), ":")
				curLoop = &LoopSpec{Ordinal: ord}
				curFn = nil
				cur.Loops[ord] = curLoop
			case "index":
				if curLoop != nil {
					curLoop.Index = strings.TrimSpace(rest)
				}
			case "visited":
				if curLoop != nil {
					curLoop.Visited = strings.TrimSpace(rest)
				}
			case "invariant":
				if curLoop == nil {
					p.errf(l.pos, "invariant outside loop")
					continue
				}
				if c := mkClause("invariant", rest, l.pos); c != nil {
					curLoop.Invariants = append(curLoop.Invariants, c)
				}
			case "reveal":
				names := strings.FieldsFunc(rest, func(r rune) bool { return r == ',' || r == ' ' })
				if curLoop != nil {
					curLoop.Reveal = append(curLoop.Reveal, names...)
				} else {
					cur.Reveal = append(cur.Reveal, names...)
				}
			case "mention":
				if curLoop == nil {
					p.errf(l.pos, "mention outside loop")
					continue
				}
				if c := mkClause("mention", rest, l.pos); c != nil {
					curLoop.Mentions = append(curLoop.Mentions, c)
				}
			case "decreases":
				if curLoop == nil {
					p.errf(l.pos, "decreases outside loop")
					continue
				}
				curLoop.Decreases = mkClause("decreases", rest, l.pos)
			case "fnparam":
				// fnparam name(p1, p2) (r1, r2):
				spec := strings.TrimSuffix(strings.TrimSpace(rest), ":")
				fp := &FnParamSpec{}
				if i := strings.Index(spec, "("); i >= 0 {
					fp.Name = strings.TrimSpace(spec[:i])
					rem := spec[i:]
					j := strings.Index(rem, ")")
					fp.Params = splitNames(rem[1:j])
					rem = strings.TrimSpace(rem[j+1:])
					if strings.HasPrefix(rem, "(") {
						fp.Results = splitNames(strings.Trim(rem, "()"))
					}
				} else {
					fp.Name = spec
				}
				cur.FnParams[fp.Name] = fp
				curFn = fp
				curLoop = nil
			case "lit":
				ord := strings.TrimSuffix(strings.TrimSpace(rest), ":")
				var litResults []string
				if i := strings.Index(ord, "("); i >= 0 {
					// lit N (r, err): names for the literal's results
					for _, n := range strings.Split(strings.Trim(strings.TrimSpace(ord[i:]), "()"), ",") {
						if n = strings.TrimSpace(n); n != "" {
							litResults = append(litResults, n)
						}
					}
					ord = strings.TrimSpace(ord[:i])
				}
				lc := &FuncContract{Results: litResults, Pkg: root.Pkg, File: root.File, Name: root.Name + "$lit" + ord, Loops: map[string]*LoopSpec{}, FnParams: map[string]*FnParamSpec{}, Opts: map[string]string{}, Lits: map[string]*FuncContract{}}
				root.Lits[ord] = lc
				cur = lc
				curLoop, curFn = nil, nil
			case "end":
				cur = root
				curLoop, curFn = nil, nil
			}
		}
	}
}

func splitNames(s string) []string {
	var out []string
	for _, f := range strings.Split(s, ",") {
		f = strings.TrimSpace(f)
		if f == "" {
			continue
		}
		out = append(out, strings.Fields(f)[0])
	}
	return out
}

func (p *Program) parseHeader(pk *packages.Package, hdr string, pos string) *FuncContract {
	hdr = strings.TrimSpace(hdr)
	src := hdr
	ext := ""
	// `func pkg.Name(` -> external package function
	if strings.HasPrefix(src, "func ") && !strings.HasPrefix(strings.TrimSpace(src[5:]), "(") {
		rest := strings.TrimSpace(src[5:])
		i := strings.Index(rest, "(")
		if i > 0 {
			name := rest[:i]
			if j := strings.Index(name, "."); j > 0 {
				ext = name[:j]
				src = "func " + name[j+1:] + rest[i:]
			}
		}
	}
	file, err := parser.ParseFile(token.NewFileSet(), "hdr.go", "package p\n"+src+" {}", 0)
	if err != nil {
		p.errf(pos, "cannot parse contract header %q: %v", hdr, err)
		return nil
	}
	fd, ok := file.Decls[0].(*ast.FuncDecl)
	if !ok {
		p.errf(pos, "bad contract header %q", hdr)
		return nil
	}
	fc := &FuncContract{Pkg: pk, Header: hdr, Name: fd.Name.Name, ExtPkg: ext, Loops: map[string]*LoopSpec{}, FnParams: map[string]*FnParamSpec{}, Opts: map[string]string{}, Lits: map[string]*FuncContract{}}
	if fd.Recv != nil && len(fd.Recv.List) == 1 {
		r := fd.Recv.List[0]
		if len(r.Names) > 0 {
			fc.RecvName = r.Names[0].Name
		}
		fc.RecvType = exprString(r.Type)
	}
	for _, f := range fd.Type.Params.List {
		if len(f.Names) == 0 {
			fc.Params = append(fc.Params, "_")
		}
		for _, n := range f.Names {
			fc.Params = append(fc.Params, n.Name)
		}
	}
	if fd.Type.Results != nil {
		for _, f := range fd.Type.Results.List {
			if len(f.Names) == 0 {
				fc.Results = append(fc.Results, "_")
			}
			for _, n := range f.Names {
				fc.Results = append(fc.Results, n.Name)
			}
		}
	}
	// bind to the real object
	obj := p.resolveFunc(pk, fc)
	if obj == nil {
		p.errf(pos, "contract header %q does not match any function", hdr)
		return nil
	}
	fc.Obj = obj
	sig := obj.Type().(*types.Signature)
	if sig.Params().Len() != len(fc.Params) || sig.Results().Len() != len(fc.Results) {
		p.errf(pos, "contract header %q: arity differs from %s", hdr, obj.FullName())
		return nil
	}
	key := funcKey(obj)
	if _, dup := p.Contracts[key]; dup {
		p.errf(pos, "duplicate contract for %s", key)
		return nil
	}
	p.Contracts[key] = fc
	// find declaration (only for functions of loaded source packages)
	if dp := p.AllPkgs[pkgPathOf(obj)]; dp != nil {
		for _, f := range dp.Syntax {
			for _, d := range f.Decls {
				if fdl, ok := d.(*ast.FuncDecl); ok && dp.TypesInfo != nil && dp.TypesInfo.Defs[fdl.Name] == obj {
					fc.Decl = fdl
					if dp.PkgPath == pk.PkgPath {
						fc.Pkg = dp
					}
					fc.SrcHash = p.srcHash(fdl)
				}
			}
		}
	}
	return fc
}

func pkgPathOf(o types.Object) string {
	if o.Pkg() == nil {
		return ""
	}
	return o.Pkg().Path()
}

func funcKey(f *types.Func) string {
	return f.Origin().FullName()
}

func (p *Program) srcHash(fd *ast.FuncDecl) string {
	s, e := p.Fset.Position(fd.Pos()), p.Fset.Position(fd.End())
	data, err := os.ReadFile(s.Filename)
	if err != nil || e.Offset > len(data) {
		return ""
	}
	h := sha256.Sum256(data[s.Offset:e.Offset])
	return fmt.Sprintf("%x", h[:8])
}

func exprString(e ast.Expr) string {
	switch v := e.(type) {
	case *ast.Ident:
		return v.Name
	case *ast.StarExpr:
		return "*" + exprString(v.X)
	case *ast.SelectorExpr:
		return exprString(v.X) + "." + v.Sel.Name
	case *ast.IndexExpr:
		return exprString(v.X)
	case *ast.IndexListExpr:
		return exprString(v.X)
	case *ast.ParenExpr:
		return exprString(v.X)
	}
	return "?"
}

// lookupPkgByName finds an imported package of pk (or pk itself) by package name or alias.
func (p *Program) lookupPkgByName(pk *packages.Package, name string) *types.Package {
	// explicit import aliases in the source files
	for _, f := range pk.Syntax {
		for _, im := range f.Imports {
			path := strings.Trim(im.Path.Value, `"`)
			if im.Name != nil && im.Name.Name == name {
				if ip := p.AllPkgs[path]; ip != nil {
					return ip.Types
				}
			}
		}
	}
	for _, ip := range pk.Imports {
		if ip.Types != nil && ip.Types.Name() == name {
			return ip.Types
		}
	}
	if pk.Types.Name() == name {
		return pk.Types
	}
	// any loaded package with that name (deterministic order)
	var paths []string
	for path, ap := range p.AllPkgs {
		if ap.Types != nil && ap.Types.Name() == name {
			paths = append(paths, path)
		}
	}
	sort.Strings(paths)
	if len(paths) > 0 {
		return p.AllPkgs[paths[0]].Types
	}
	return nil
}

func (p *Program) resolveFunc(pk *packages.Package, fc *FuncContract) *types.Func {
	tp := pk.Types
	if fc.RecvType == "" {
		if fc.ExtPkg != "" {
			tp = p.lookupPkgByName(pk, fc.ExtPkg)
			if tp == nil {
				return nil
			}
		}
		if f, ok := tp.Scope().Lookup(fc.Name).(*types.Func); ok {
			return f
		}
		return nil
	}
	rt := strings.TrimPrefix(fc.RecvType, "*")
	if i := strings.Index(rt, "."); i > 0 {
		tp = p.lookupPkgByName(pk, rt[:i])
		rt = rt[i+1:]
		if tp == nil {
			return nil
		}
	}
	tn, ok := tp.Scope().Lookup(rt).(*types.TypeName)
	if !ok {
		return nil
	}
	obj, _, _ := types.LookupFieldOrMethod(tn.Type(), true, tp, fc.Name)
	if f, ok := obj.(*types.Func); ok {
		return f
	}
	// unexported method from a different package scope
	if nt, ok := tn.Type().(*types.Named); ok {
		for i := 0; i < nt.NumMethods(); i++ {
			if nt.Method(i).Name() == fc.Name {
				return nt.Method(i)
			}
		}
	}
	return nil
}

func (p *Program) parseSpecDecl(pk *packages.Package, kind, rest, pos string) {
	sd := &SpecDecl{Kind: kind, Text: rest, Pkg: pk, Line: pos}
	switch kind {
	case "pin":
		// pin C28 C25 :: constant-expression   (the meaning of an uninterpreted predicate is tied to a source constant)
		j := strings.Index(rest, "::")
		if j < 0 {
			p.errf(pos, "bad pin %q", rest)
			return
		}
		sd.Props = strings.Fields(rest[:j])
		x, err := ParseSpecExpr(strings.TrimSpace(rest[j+2:]))
		if err != nil {
			p.errf(pos, "%v", err)
			return
		}
		sd.Body = x
		sd.Name = strings.TrimSpace(rest[j+2:])
	case "lemma":
		// lemma name(params) [induction k] :: body
		i := strings.Index(rest, "(")
		j := strings.Index(rest, "::")
		if i < 0 || j < 0 {
			p.errf(pos, "bad lemma %q", rest)
			return
		}
		sd.Name = strings.TrimSpace(rest[:i])
		depth, e := 0, i
		for ; e < len(rest); e++ {
			if rest[e] == '(' {
				depth++
			} else if rest[e] == ')' {
				depth--
				if depth == 0 {
					break
				}
			}
		}
		for _, part := range splitTop(rest[i+1 : e]) {
			part = strings.TrimSpace(part)
			if part == "" {
				continue
			}
			n, t := firstWord(part)
			ty, err := ParseTypeX(t)
			if err != nil {
				p.errf(pos, "%v", err)
				return
			}
			sd.Params = append(sd.Params, QVar{n, ty})
		}
		mid := strings.Fields(rest[e+1 : j])
		if len(mid) == 2 && mid[0] == "induction" {
			sd.Induct = mid[1]
		}
		// reuse the quantifier parser for the optional trigger groups: forall $l int :: {..} body
		x, err := ParseSpecExpr("forall lemmadummy int :: " + strings.TrimSpace(rest[j+2:]))
		if err != nil {
			p.errf(pos, "%v", err)
			return
		}
		sd.Body = x.Args[0]
		sd.Trig = x.Args[1:]
	case "axiom":
		x, err := ParseSpecExpr(rest)
		if err != nil {
			p.errf(pos, "%v", err)
			return
		}
		sd.Body = x
	case "ghost":
		// ghost name Type
		n, t := firstWord(rest)
		ty, err := ParseTypeX(t)
		if err != nil {
			p.errf(pos, "%v", err)
			return
		}
		sd.Name, sd.Ret = n, ty
	default:
		// name(params) [type] [= body]
		i := strings.Index(rest, "(")
		if i < 0 {
			p.errf(pos, "bad spec declaration %q", rest)
			return
		}
		sd.Name = strings.TrimSpace(rest[:i])
		depth, j := 0, i
		for ; j < len(rest); j++ {
			if rest[j] == '(' {
				depth++
			} else if rest[j] == ')' {
				depth--
				if depth == 0 {
					break
				}
			}
		}
		ps := rest[i+1 : j]
		tail := strings.TrimSpace(rest[j+1:])
		for _, part := range splitTop(ps) {
			part = strings.TrimSpace(part)
			if part == "" {
				continue
			}
			n, t := firstWord(part)
			ty, err := ParseTypeX(t)
			if err != nil {
				p.errf(pos, "%v", err)
				return
			}
			sd.Params = append(sd.Params, QVar{n, ty})
		}
		body := ""
		if k := strings.Index(tail, "="); k >= 0 && !strings.HasPrefix(tail[k:], "==") {
			body = strings.TrimSpace(tail[k+1:])
			tail = strings.TrimSpace(tail[:k])
		}
		if tail != "" {
			ty, err := ParseTypeX(tail)
			if err != nil {
				p.errf(pos, "%v", err)
				return
			}
			sd.Ret = ty
		}
		if body != "" {
			x, err := ParseSpecExpr(body)
			if err != nil {
				p.errf(pos, "%v", err)
				return
			}
			sd.Body = x
		}
	}
	p.Specs = append(p.Specs, sd)
}

func splitTop(s string) []string {
	var out []string
	depth, st := 0, 0
	for i, c := range s {
		switch c {
		case '(', '[':
			depth++
		case ')', ']':
			depth--
		case ',':
			if depth == 0 {
				out = append(out, s[st:i])
				st = i + 1
			}
		}
	}
	out = append(out, s[st:])
	return out
}

// ResolveTypeX turns a spec type into a sort, resolving names in package pk.
func (p *Program) ResolveTypeX(ss *Sorts, pk *packages.Package, t *TypeX) (*Sort, types.Type, error) {
	return p.resolveTypeXWith(ss, pk, t, nil)
}

// resolveTypeXWith: extra maps names (type parameters in scope) to types.
func (p *Program) resolveTypeXWith(ss *Sorts, pk *packages.Package, t *TypeX, extra map[string]types.Type) (*Sort, types.Type, error) {
	switch t.Kind {
	case "name":
		if t.Pkg == "" && extra != nil {
			if gt, ok := extra[t.Name]; ok {
				return ss.Of(gt), gt, nil
			}
		}
		if t.Pkg == "" {
			switch t.Name {
			case "int":
				return SInt, types.Typ[types.Int], nil
			case "bool":
				return SBool, types.Typ[types.Bool], nil
			case "string":
				return SStr, types.Typ[types.String], nil
			case "real":
				return SReal, nil, nil
			case "error":
				return SErr, types.Universe.Lookup("error").Type(), nil
			case "Fn":
				return SFn, nil, nil
			case "bigint":
				return SBig, nil, nil
			}
		}
		tp := pk.Types
		if t.Pkg != "" {
			tp = p.lookupPkgByName(pk, t.Pkg)
			if tp == nil {
				return nil, nil, fmt.Errorf("unknown package %s in type %s", t.Pkg, t)
			}
		}
		obj := tp.Scope().Lookup(t.Name)
		if obj == nil {
			obj = types.Universe.Lookup(t.Name)
		}
		if tn0, ok := obj.(*types.TypeName); ok && len(t.Args) > 0 {
			if named, ok := tn0.Type().(*types.Named); ok && named.TypeParams() != nil && named.TypeParams().Len() == len(t.Args) {
				var targs []types.Type
				for _, a := range t.Args {
					_, gt, err := p.resolveTypeXWith(ss, pk, a, extra)
					if err != nil || gt == nil {
						return nil, nil, fmt.Errorf("cannot resolve type argument %s of %s", a, t)
					}
					targs = append(targs, gt)
				}
				inst, err := types.Instantiate(nil, named, targs, false)
				if err != nil {
					return nil, nil, err
				}
				return ss.Of(inst), inst, nil
			}
		}
		tn, ok := obj.(*types.TypeName)
		if !ok {
			// opaque spec-only sort
			if t.Pkg == "" && len(t.Name) > 0 && t.Name[0] >= 'A' && t.Name[0] <= 'Z' {
				return ss.opaque("spec_"+t.Name, nil), nil, nil
			}
			return nil, nil, fmt.Errorf("unknown type %s", t)
		}
		return ss.Of(tn.Type()), tn.Type(), nil
	case "ptr":
		_, gt, err := p.resolveTypeXWith(ss, pk, t.Elem, extra)
		if err != nil {
			return nil, nil, err
		}
		if gt == nil {
			return nil, nil, fmt.Errorf("pointer to spec-only type %s", t)
		}
		pt := types.NewPointer(gt)
		return ss.Of(pt), pt, nil
	case "slice":
		es, gt, err := p.resolveTypeXWith(ss, pk, t.Elem, extra)
		if err != nil {
			return nil, nil, err
		}
		if gt != nil {
			st := types.NewSlice(gt)
			return ss.Of(st), st, nil
		}
		return ss.mkSlice(es, nil), nil, nil
	case "map":
		ks, kt, err := p.resolveTypeXWith(ss, pk, t.Key, extra)
		if err != nil {
			return nil, nil, err
		}
		es, et, err := p.resolveTypeXWith(ss, pk, t.Elem, extra)
		if err != nil {
			return nil, nil, err
		}
		if kt != nil && et != nil {
			mt := types.NewMap(kt, et)
			return ss.Of(mt), mt, nil
		}
		return ss.mkMap(ks, es, nil), nil, nil
	case "arr":
		ks, _, err := p.resolveTypeXWith(ss, pk, t.Key, extra)
		if err != nil {
			return nil, nil, err
		}
		es, _, err := p.resolveTypeXWith(ss, pk, t.Elem, extra)
		if err != nil {
			return nil, nil, err
		}
		return ss.mkArray(ks, es), nil, nil
	}
	return nil, nil, fmt.Errorf("bad type %s", t)
}
