package main

// Symbolic execution of statements (path enumeration, continuation-passing).

import (
	"fmt"
	"strings"
	"go/ast"
	"go/token"
	"go/types"
)

func (fv *FV) execBlock(st *State, list []ast.Stmt, ctl *Ctl, k Kont) {
	if len(list) == 0 {
		k(st)
		return
	}
	fv.execStmt(st, list[0], ctl, func(s2 *State) {
		fv.execBlock(s2, list[1:], ctl, k)
	})
}

func (fv *FV) countPath(pos token.Pos) {
	fv.paths++
	if fv.paths > fv.maxPath {
		fv.abort(pos, "path limit %d exceeded", fv.maxPath)
	}
}

func (fv *FV) execStmt(st *State, s ast.Stmt, ctl *Ctl, k Kont) {
	switch x := s.(type) {
	case *ast.EmptyStmt:
		k(st)
	case *ast.BlockStmt:
		fv.execBlock(st, x.List, ctl, k)
	case *ast.ExprStmt:
		if call, ok := x.X.(*ast.CallExpr); ok {
			if fv.isPanicCall(call) {
				for _, a := range call.Args {
					fv.evalExprLoose(st, a)
				}
				for _, u := range fv.fc.Unreachable {
					if strings.Contains(exprStr(fv, call), u) {
						fv.note("panic assumed unreachable by contract: " + exprStr(fv, call))
						return
					}
				}
				fv.assert(st, "panic", tBool(false), call.Pos(), "explicit panic is unreachable: "+exprStr(fv, call))
				return // path ends
			}
			fv.evalCall(st, call)
			k(st)
			return
		}
		fv.evalExpr(st, x.X)
		k(st)
	case *ast.DeclStmt:
		gd := x.Decl.(*ast.GenDecl)
		if gd.Tok == token.VAR {
			for _, sp := range gd.Specs {
				vs := sp.(*ast.ValueSpec)
				if len(vs.Values) == 1 && len(vs.Names) > 1 {
					rs := fv.evalMulti(st, vs.Values[0], len(vs.Names))
					for i, n := range vs.Names {
						fv.defineVar(st, n, rs[i], nil)
					}
					continue
				}
				for i, n := range vs.Names {
					obj := fv.info.Defs[n]
					if obj == nil {
						continue
					}
					if i < len(vs.Values) {
						v := fv.evalExpr(st, vs.Values[i])
						v = fv.convertTo(st, v, fv.info.TypeOf(vs.Values[i]), obj.Type(), n.Pos())
						st.vars[obj] = fv.bind(st, v, n.Name)
					} else {
						so := fv.ss.Of(obj.Type())
						st.vars[obj] = Term{fv.ss.Zero(so), so}
					}
					delete(st.alias, obj)
				}
			}
		}
		k(st)
	case *ast.AssignStmt:
		// x, y := func(...){...}(...)  or  x, y := callThrough(..., func(...){...}, ...): execute the literal with all its exit paths
		if len(x.Rhs) == 1 && (x.Tok == token.ASSIGN || x.Tok == token.DEFINE) {
			if call, ok := stripParens(x.Rhs[0]).(*ast.CallExpr); ok {
				if lit, args := fv.litCall(st, call); lit != nil {
					fv.execLitCall(st, lit, args, call.Pos(), ctl, func(s2 *State, vals []Term) {
						if len(vals) != len(x.Lhs) {
							fv.abort(x.Pos(), "function literal yields %d values, %d expected", len(vals), len(x.Lhs))
						}
						sig := fv.info.TypeOf(lit).(*types.Signature)
						for i, l := range x.Lhs {
							id, isID := l.(*ast.Ident)
							if isID && id.Name == "_" {
								continue
							}
							if isID {
								fv.defineVar(s2, id, vals[i], sig.Results().At(i).Type())
								continue
							}
							p := fv.lvalue(s2, l)
							fv.writePath(s2, p, fv.convertTo(s2, vals[i], sig.Results().At(i).Type(), fv.info.TypeOf(l), x.Pos()), x.Pos())
						}
						k(s2)
					})
					return
				}
			}
		}
		fv.execAssign(st, x)
		k(st)
	case *ast.IncDecStmt:
		p := fv.lvalue(st, x.X)
		cur := fv.readPath(st, p, false)
		op := "+"
		if x.Tok == token.DEC {
			op = "-"
		}
		nv := T(sx(op, cur.S, "1"), SInt)
		if x.Tok == token.DEC && isUnsigned(fv.info.TypeOf(x.X)) {
			fv.assert(st, "uint-underflow", T(sx(">=", nv.S, "0"), SBool), x.Pos(), "unsigned decrement does not wrap")
		}
		fv.overflowCheck(st, nv, fv.info.TypeOf(x.X), x.Pos())
		fv.writePath(st, p, nv, x.Pos())
		k(st)
	case *ast.ReturnStmt:
		fv.execReturn(st, x, ctl)
	case *ast.IfStmt:
		fv.execIf(st, x, ctl, k)
	case *ast.ForStmt:
		fv.execFor(st, x, "", ctl, k)
	case *ast.RangeStmt:
		fv.execRange(st, x, "", ctl, k)
	case *ast.LabeledStmt:
		switch inner := x.Stmt.(type) {
		case *ast.ForStmt:
			fv.execFor(st, inner, x.Label.Name, ctl, k)
		case *ast.RangeStmt:
			fv.execRange(st, inner, x.Label.Name, ctl, k)
		default:
			fv.execStmt(st, x.Stmt, ctl, k)
		}
	case *ast.BranchStmt:
		label := ""
		if x.Label != nil {
			label = x.Label.Name
		}
		switch x.Tok {
		case token.BREAK:
			if f := ctl.brk[label]; f != nil {
				f(st)
				return
			}
			fv.abort(x.Pos(), "break outside loop/switch")
		case token.CONTINUE:
			if f := ctl.cont[label]; f != nil {
				f(st)
				return
			}
			fv.abort(x.Pos(), "continue outside loop")
		default:
			fv.abort(x.Pos(), "unsupported branch statement %s", x.Tok)
		}
	case *ast.SwitchStmt:
		fv.execSwitch(st, x, ctl, k)
	case *ast.TypeSwitchStmt:
		fv.execTypeSwitch(st, x, ctl, k)
	case *ast.DeferStmt:
		st.defers = append(st.defers[:len(st.defers):len(st.defers)], deferred{x.Call})
		k(st)
	case *ast.GoStmt:
		fv.note("go statement dropped: " + exprStr(fv, x.Call.Fun))
		k(st)
	case *ast.SendStmt:
		val := fv.evalExpr(st, x.Value)
		name := exprStr(fv, x.Chan)
		if fp := fv.fc.FnParams["send_"+name]; fp != nil {
			// a send on this channel has a ghost effect given by the `fnparam send_<chan>(v)` contract
			ghostPre := map[string]Term{}
			for g, t := range st.ghost {
				ghostPre[g] = t
			}
			for _, m := range fp.Modifies {
				if g, ok := fv.reg.ghosts[m]; ok {
					st.ghost[m] = fv.fresh(m, g.Sort)
				}
			}
			for _, c := range fp.Ensures {
				env := fv.specEnv(st, x.Pos(), nil, false)
				base := env.lookup
				env.lookup = func(n string, old bool) (Term, bool) {
					if len(fp.Params) > 0 && n == fp.Params[0] {
						return val, true
					}
					if _, ok := fv.reg.ghosts[n]; ok && old {
						return ghostPre[n], true
					}
					return base(n, old)
				}
				t, err := env.EvalBool(c.X)
				if err != nil {
					fv.abort(x.Pos(), "send contract %q: %v", c.Text, err)
				}
				st.assume(t)
			}
		} else {
			fv.note("channel send dropped: " + name)
		}
		k(st)
	case *ast.SelectStmt:
		// every communication clause may be the one taken (no assumption on readiness)
		fv.note("select: each case is explored as possible; channel operations themselves are not modelled")
		inner := ctl.with("", k, nil)
		for _, c := range x.Body.List {
			cc := c.(*ast.CommClause)
			br := st.clone()
			fv.countPath(cc.Pos())
			if cc.Comm != nil {
				switch cm := cc.Comm.(type) {
				case *ast.AssignStmt:
					for _, l := range cm.Lhs {
						if id, ok := l.(*ast.Ident); ok && id.Name != "_" {
							if obj := fv.info.ObjectOf(id); obj != nil {
								br.vars[obj] = fv.fresh(id.Name, fv.ss.Of(obj.Type()))
							}
						}
					}
				case *ast.SendStmt:
					fv.execStmt(br, cm, inner, func(*State) {})
				}
			}
			fv.execBlock(br, cc.Body, inner, k)
		}
	default:
		fv.abort(s.Pos(), "unsupported statement %T", s)
	}
}

// evalExprLoose evaluates an expression whose value is irrelevant (e.g. panic argument).
func (fv *FV) evalExprLoose(st *State, e ast.Expr) {
	defer func() {
		if r := recover(); r != nil {
			if _, ok := r.(abortErr); !ok {
				panic(r)
			}
		}
	}()
	fv.evalExpr(st, e)
}

func (fv *FV) isPanicCall(c *ast.CallExpr) bool {
	id, ok := c.Fun.(*ast.Ident)
	if !ok || id.Name != "panic" {
		return false
	}
	_, isB := fv.info.ObjectOf(id).(*types.Builtin)
	return isB
}

func (fv *FV) defineVar(st *State, id *ast.Ident, v Term, from types.Type) {
	if id.Name == "_" {
		return
	}
	obj := fv.info.Defs[id]
	if obj == nil {
		obj = fv.info.Uses[id]
	}
	if obj == nil {
		fv.abort(id.Pos(), "no object for %s", id.Name)
	}
	if from != nil {
		v = fv.convertTo(st, v, from, obj.Type(), id.Pos())
	} else if so := fv.ss.Of(obj.Type()); so != v.Sort {
		fv.abort(id.Pos(), "variable %s of sort %s assigned sort %s", id.Name, so.Name, v.Sort.Name)
	}
	delete(st.alias, obj)
	st.vars[obj] = fv.bind(st, v, id.Name)
}

// evalMulti evaluates an expression producing n values (call, comma-ok forms).
func (fv *FV) evalMulti(st *State, e ast.Expr, n int) []Term {
	if p, ok := e.(*ast.ParenExpr); ok {
		return fv.evalMulti(st, p.X, n)
	}
	switch x := e.(type) {
	case *ast.CallExpr:
		rs := fv.evalCall(st, x)
		if len(rs) != n {
			fv.abort(e.Pos(), "call yields %d values, %d expected", len(rs), n)
		}
		return rs
	case *ast.IndexExpr:
		if n == 2 {
			var m Term
			if fv.isPathExpr(x.X) {
				m = fv.readPath(st, fv.lvalue(st, x.X), false)
			} else {
				m = fv.evalExpr(st, x.X)
			}
			k := fv.bind(st, fv.evalExpr(st, x.Index), "k")
			if m.Sort.Kind != KMap {
				fv.abort(e.Pos(), "comma-ok index on sort %s", m.Sort.Name)
			}
			return []Term{fv.ss.mpGet(m, k), mpHas(m, k)}
		}
	case *ast.TypeAssertExpr:
		if n == 2 {
			v := fv.evalExpr(st, x.X)
			t, ok := fv.typeAssert(st, v, fv.info.TypeOf(x.Type), x.Pos())
			zero := Term{fv.ss.Zero(t.Sort), t.Sort}
			return []Term{tIte(ok, t, zero), ok}
		}
	}
	if n == 1 {
		return []Term{fv.evalExpr(st, e)}
	}
	fv.abort(e.Pos(), "unsupported multi-value expression %T", e)
	return nil
}

func isRefKind(so *Sort) bool {
	return so.Kind == KMap || so.Kind == KPtr
}

func (fv *FV) execAssign(st *State, x *ast.AssignStmt) {
	if x.Tok != token.ASSIGN && x.Tok != token.DEFINE {
		// op-assign
		p := fv.lvalue(st, x.Lhs[0])
		cur := fv.readPath(st, p, false)
		rhs := fv.evalExpr(st, x.Rhs[0])
		var nv Term
		lt := fv.info.TypeOf(x.Lhs[0])
		switch x.Tok {
		case token.ADD_ASSIGN:
			if cur.Sort == SStr {
				nv = T(sx("str_cat", cur.S, rhs.S), SStr)
			} else {
				nv = T(sx("+", cur.S, rhs.S), SInt)
				fv.overflowCheck(st, nv, lt, x.Pos())
			}
		case token.SUB_ASSIGN:
			nv = T(sx("-", cur.S, rhs.S), SInt)
			if isUnsigned(lt) {
				fv.assert(st, "uint-underflow", T(sx(">=", nv.S, "0"), SBool), x.Pos(), "unsigned subtraction does not wrap")
			}
		case token.MUL_ASSIGN:
			nv = T(sx("*", cur.S, rhs.S), SInt)
			fv.overflowCheck(st, nv, lt, x.Pos())
		default:
			fv.abort(x.Pos(), "unsupported assignment operator %s", x.Tok)
		}
		fv.writePath(st, p, nv, x.Pos())
		return
	}
	// evaluate right-hand sides
	var vals []Term
	var froms []types.Type
	if len(x.Rhs) == 1 && len(x.Lhs) > 1 {
		vals = fv.evalMulti(st, x.Rhs[0], len(x.Lhs))
		froms = make([]types.Type, len(vals))
		// v, ok := m[k] with a reference-typed element: v aliases the element
		if ie, ok := stripParens(x.Rhs[0]).(*ast.IndexExpr); ok && len(x.Lhs) == 2 && fv.isPathExpr(ie) {
			if id, ok := x.Lhs[0].(*ast.Ident); ok && id.Name != "_" {
				obj := fv.info.ObjectOf(id)
				if obj != nil && isRefKind(fv.ss.Of(obj.Type())) {
					base := fv.resolveAlias(st, fv.lvalue(st, ie.X))
					kk := fv.bind(st, fv.evalExpr(st, ie.Index), "k")
					p := extend(base, PathStep{Kind: StMapKey, Key: kk, Pos: ie.Pos()})
					delete(st.vars, obj)
					st.alias[obj] = p
					if id2, ok := x.Lhs[1].(*ast.Ident); ok {
						fv.defineVar(st, id2, vals[1], nil)
					}
					return
				}
			}
		}
		if tup, ok := fv.info.TypeOf(x.Rhs[0]).(*types.Tuple); ok {
			for i := 0; i < tup.Len(); i++ {
				froms[i] = tup.At(i).Type()
			}
		}
	} else {
		// single assignment of a reference-typed path to a local: keep it as an alias of that location
		if len(x.Lhs) == 1 {
			if id, ok := x.Lhs[0].(*ast.Ident); ok && id.Name != "_" && fv.isPathExpr(x.Rhs[0]) {
				obj := fv.info.ObjectOf(id)
				if obj != nil && isRefKind(fv.ss.Of(obj.Type())) && fv.ss.Of(fv.info.TypeOf(x.Rhs[0])) == fv.ss.Of(obj.Type()) {
					p := fv.resolveAlias(st, fv.lvalue(st, x.Rhs[0]))
					if p.Root != obj {
						fv.readPath(st, p, false) // safety obligations of the read
						delete(st.vars, obj)
						st.alias[obj] = p
						return
					}
				}
			}
		}
		for _, r := range x.Rhs {
			vals = append(vals, fv.evalExpr(st, r))
			froms = append(froms, fv.info.TypeOf(r))
		}
	}
	// resolve lvalues first for tuple assignment semantics
	type target struct {
		id   *ast.Ident
		path *Path
	}
	tg := make([]target, len(x.Lhs))
	for i, l := range x.Lhs {
		if id, ok := l.(*ast.Ident); ok {
			tg[i].id = id
			continue
		}
		tg[i].path = fv.lvalue(st, l)
		if tg[i].path == nil {
			fv.abort(l.Pos(), "unsupported assignment target")
		}
	}
	for i, t := range tg {
		if t.id != nil {
			if t.id.Name == "_" {
				continue
			}
			obj := fv.info.ObjectOf(t.id)
			if st.alias[obj] != nil && x.Tok == token.ASSIGN {
				// re-assignment of an alias variable: becomes a plain value again
				delete(st.alias, obj)
			}
			fv.defineVar(st, t.id, vals[i], froms[i])
			continue
		}
		v := vals[i]
		lt := fv.info.TypeOf(x.Lhs[i])
		if froms[i] != nil {
			v = fv.convertTo(st, v, froms[i], lt, x.Pos())
		}
		// a map / pointer / slice variable stored into another location: both now refer to the same object
		if len(x.Rhs) == len(x.Lhs) && len(t.path.Steps) > 0 && (v.Sort.Kind == KMap || v.Sort.Kind == KPtr) {
			if id, ok := stripParens(x.Rhs[i]).(*ast.Ident); ok {
				if obj, ok := fv.info.ObjectOf(id).(*types.Var); ok && st.alias[obj] == nil {
					if st.escaped == nil {
						st.escaped = map[types.Object]token.Pos{}
					}
					st.escaped[obj] = x.Pos()
				}
			}
		}
		fv.writePath(st, t.path, fv.bind(st, v, "v"), x.Pos())
	}
}

func stripParens(e ast.Expr) ast.Expr {
	for {
		p, ok := e.(*ast.ParenExpr)
		if !ok {
			return e
		}
		e = p.X
	}
}

func (fv *FV) isParamObj(o types.Object) bool {
	for _, p := range fv.specParam {
		if p == o {
			return true
		}
	}
	return false
}

func (fv *FV) execIf(st *State, x *ast.IfStmt, ctl *Ctl, k Kont) {
	run := func(st *State) {
		c := fv.evalExpr(st, x.Cond)
		if x.Else == nil && fv.effectFreeThen(st, c, x, ctl) {
			// the then-branch falls through exactly once and leaves every variable, alias and ghost as it found them
			// (e.g. a debug print block): its obligations were generated under the condition; both branches continue
			// as one path, without the branch condition (dropping a hypothesis is sound)
			k(st)
			return
		}
		thenSt := st.clone()
		thenSt.assume(c)
		elseSt := st
		elseSt.assume(tNot(c))
		fv.countPath(x.Pos())
		fv.execBlock(thenSt, x.Body.List, ctl, k)
		if x.Else != nil {
			fv.execStmt(elseSt, x.Else, ctl, k)
		} else {
			k(elseSt)
		}
	}
	if x.Init != nil {
		fv.execStmt(st, x.Init, ctl, run)
	} else {
		run(st)
	}
}

func (fv *FV) execReturn(st *State, x *ast.ReturnStmt, ctl *Ctl) {
	var vals []Term
	sig := fv.curSig
	n := sig.Results().Len()
	switch {
	case len(x.Results) == 0 && n > 0:
		for _, o := range fv.curResObjs {
			vals = append(vals, fv.readVar(st, o))
		}
	case len(x.Results) == 1 && n > 1:
		vals = fv.evalMulti(st, x.Results[0], n)
		if tup, ok := fv.info.TypeOf(x.Results[0]).(*types.Tuple); ok {
			for i := range vals {
				vals[i] = fv.convertTo(st, vals[i], tup.At(i).Type(), sig.Results().At(i).Type(), x.Pos())
			}
		}
	default:
		for i, r := range x.Results {
			v := fv.evalExpr(st, r)
			v = fv.convertTo(st, v, fv.info.TypeOf(r), sig.Results().At(i).Type(), r.Pos())
			vals = append(vals, fv.bind(st, v, "ret"))
		}
	}
	ctl.ret(st, vals)
}

func (fv *FV) execSwitch(st *State, x *ast.SwitchStmt, ctl *Ctl, k Kont) {
	run := func(st *State) {
		var tag *Term
		if x.Tag != nil {
			t := fv.bind(st, fv.evalExpr(st, x.Tag), "tag")
			tag = &t
		}
		inner := ctl.with("", k, nil)
		cur := st
		var deflt *ast.CaseClause
		defltIdx := -1
		// runClause executes the body of clause i; a trailing `fallthrough` continues with the body of the next clause
		// in source order (without evaluating its case expressions), as the language defines
		var runClause func(i int, s *State)
		runClause = func(i int, s *State) {
			body := x.Body.List[i].(*ast.CaseClause).Body
			if n := len(body); n > 0 {
				if b, ok := body[n-1].(*ast.BranchStmt); ok && b.Tok == token.FALLTHROUGH {
					if i+1 >= len(x.Body.List) {
						fv.abort(b.Pos(), "fallthrough in the last clause")
					}
					fv.execBlock(s, body[:n-1], inner, func(s2 *State) { runClause(i+1, s2) })
					return
				}
			}
			fv.execBlock(s, body, inner, k)
		}
		for ci, c := range x.Body.List {
			cc := c.(*ast.CaseClause)
			if cc.List == nil {
				deflt = cc
				defltIdx = ci
				continue
			}
			var conds []Term
			for _, e := range cc.List {
				if tag != nil {
					v := fv.evalExpr(cur, e)
					conds = append(conds, tEq(*tag, v))
				} else {
					conds = append(conds, fv.evalExpr(cur, e))
				}
			}
			cond := tOr(conds...)
			hit := cur.clone()
			hit.assume(cond)
			fv.countPath(cc.Pos())
			runClause(ci, hit)
			cur.assume(tNot(cond))
		}
		if deflt != nil {
			runClause(defltIdx, cur)
		} else {
			k(cur)
		}
	}
	if x.Init != nil {
		fv.execStmt(st, x.Init, ctl, run)
	} else {
		run(st)
	}
}

func (fv *FV) execTypeSwitch(st *State, x *ast.TypeSwitchStmt, ctl *Ctl, k Kont) {
	run := func(st *State) {
		var guard *ast.TypeAssertExpr
		var bindID *ast.Ident
		switch a := x.Assign.(type) {
		case *ast.AssignStmt:
			guard = a.Rhs[0].(*ast.TypeAssertExpr)
			bindID = a.Lhs[0].(*ast.Ident)
		case *ast.ExprStmt:
			guard = a.X.(*ast.TypeAssertExpr)
		}
		v := fv.bind(st, fv.evalExpr(st, guard.X), "tsw")
		inner := ctl.with("", k, nil)
		cur := st
		var deflt *ast.CaseClause
		for _, c := range x.Body.List {
			cc := c.(*ast.CaseClause)
			if cc.List == nil {
				deflt = cc
				continue
			}
			var conds []Term
			var payload *Term
			for _, e := range cc.List {
				if isNilExpr(e) {
					n, err := fv.ss.isNil(v)
					if err != nil {
						fv.abort(e.Pos(), "%v", err)
					}
					conds = append(conds, n)
					continue
				}
				t, ok := fv.typeAssert(cur, v, fv.info.TypeOf(e), e.Pos())
				conds = append(conds, ok)
				if len(cc.List) == 1 {
					payload = &t
				}
			}
			cond := tOr(conds...)
			hit := cur.clone()
			hit.assume(cond)
			if bindID != nil {
				if obj := fv.info.Implicits[cc]; obj != nil {
					if payload != nil && fv.ss.Of(obj.Type()) == payload.Sort {
						hit.vars[obj] = *payload
					} else {
						hit.vars[obj] = v
					}
				}
			}
			fv.countPath(cc.Pos())
			fv.execBlock(hit, cc.Body, inner, k)
			cur.assume(tNot(cond))
		}
		if deflt != nil {
			if bindID != nil {
				if obj := fv.info.Implicits[deflt]; obj != nil {
					cur.vars[obj] = v
				}
			}
			fv.execBlock(cur, deflt.Body, inner, k)
		} else {
			k(cur)
		}
	}
	if x.Init != nil {
		fv.execStmt(st, x.Init, ctl, run)
	} else {
		run(st)
	}
}

var _ = fmt.Sprint

// litCall recognises calls that run a function literal exactly once: an immediately invoked literal, or a
// call-through helper with a literal argument. It returns the literal and the argument terms bound to its parameters.
func (fv *FV) litCall(st *State, call *ast.CallExpr) (*ast.FuncLit, []Term) {
	fun := stripParens(call.Fun)
	if lit, ok := fun.(*ast.FuncLit); ok {
		var args []Term
		for _, a := range call.Args {
			args = append(args, fv.evalExpr(st, a))
		}
		return lit, args
	}
	if ix, ok := fun.(*ast.IndexExpr); ok {
		fun = stripParens(ix.X)
	}
	if ix, ok := fun.(*ast.IndexListExpr); ok {
		fun = stripParens(ix.X)
	}
	var callee *types.Func
	switch f := fun.(type) {
	case *ast.Ident:
		callee, _ = fv.info.ObjectOf(f).(*types.Func)
	case *ast.SelectorExpr:
		if fv.info.Selections[f] == nil {
			callee, _ = fv.info.ObjectOf(f.Sel).(*types.Func)
		}
	}
	if callee == nil {
		return nil, nil
	}
	idx, ok := callThrough[funcKey(callee)]
	if !ok || idx >= len(call.Args) {
		return nil, nil
	}
	lit, ok := stripParens(call.Args[idx]).(*ast.FuncLit)
	if !ok {
		return nil, nil
	}
	for i, a := range call.Args {
		if i != idx {
			fv.evalExprLoose(st, a)
		}
	}
	fv.note("ASSUMED call-through: " + funcKey(callee) + " calls its function argument exactly once and returns its results")
	var args []Term
	if lit.Type.Params != nil && len(lit.Type.Params.List) == 1 && len(call.Args) > 0 {
		args = append(args, fv.evalExpr(st, call.Args[0]))
	}
	return lit, args
}

// execLitCall runs the body of a function literal in continuation-passing style: every return path continues with k.
func (fv *FV) execLitCall(st *State, lit *ast.FuncLit, args []Term, pos token.Pos, ctl *Ctl, k func(*State, []Term)) {
	if fv.inlineDepth > 3 {
		fv.abort(pos, "function literal nesting too deep")
	}
	sig := fv.info.TypeOf(lit).(*types.Signature)
	i := 0
	for _, f := range lit.Type.Params.List {
		for _, n := range f.Names {
			if obj := fv.info.Defs[n]; obj != nil && i < len(args) {
				st.vars[obj] = args[i]
			}
			i++
		}
	}
	outerDefers := st.defers
	st.defers = nil
	saveSig, saveRes := fv.curSig, fv.curResObjs
	fv.curSig = sig
	fv.curResObjs = nil
	fv.inlineDepth++
	inner := &Ctl{brk: map[string]Kont{}, cont: map[string]Kont{}}
	inner.ret = func(s2 *State, vals []Term) {
		// deferred calls of the literal run at each of its returns
		for j := len(s2.defers) - 1; j >= 0; j-- {
			d := s2.defers[j]
			if dl, ok := stripParens(d.call.Fun).(*ast.FuncLit); ok {
				fv.inlineLit(s2, dl, d.call.Args, d.call.Pos())
			} else if !fv.isBuiltinCall(d.call, "close") {
				fv.evalCall(s2, d.call)
			}
		}
		s2.defers = outerDefers
		// leave the literal's context while the continuation runs
		sSig, sRes, sDepth := fv.curSig, fv.curResObjs, fv.inlineDepth
		fv.curSig, fv.curResObjs, fv.inlineDepth = saveSig, saveRes, sDepth-1
		k(s2, vals)
		fv.curSig, fv.curResObjs, fv.inlineDepth = sSig, sRes, sDepth
	}
	fv.execBlock(st, lit.Body.List, inner, func(s2 *State) { inner.ret(s2, nil) })
	fv.curSig, fv.curResObjs = saveSig, saveRes
	fv.inlineDepth--
}


// effectFreeThen runs the then-branch of an else-less if on a scratch state. It reports true when the branch cannot leave
// through return/break/continue, falls through exactly once, and that state equals the incoming one (variables, aliases,
// ghosts, defers). The obligations generated during the trial are kept in that case and rolled back otherwise.
func (fv *FV) effectFreeThen(st *State, c Term, x *ast.IfStmt, ctl *Ctl) bool {
	simple := true
	ast.Inspect(x.Body, func(n ast.Node) bool {
		switch n.(type) {
		case *ast.ReturnStmt, *ast.BranchStmt, *ast.ForStmt, *ast.RangeStmt, *ast.DeferStmt, *ast.GoStmt, *ast.FuncLit, *ast.AssignStmt, *ast.IncDecStmt, *ast.SendStmt, *ast.DeclStmt:
			simple = false
		}
		return simple
	})
	if !simple {
		return false
	}
	n0, b0, p0 := len(fv.obls), len(fv.batches), fv.paths
	seq0 := map[string]int{}
	for k, v := range fv.oblSeq {
		seq0[k] = v
	}
	trial := st.clone()
	trial.assume(c)
	var ends []*State
	escaped := false
	tc := &Ctl{brk: map[string]Kont{}, cont: map[string]Kont{}, ret: func(*State, []Term) { escaped = true }}
	for l := range ctl.brk {
		tc.brk[l] = func(*State) { escaped = true }
	}
	for l := range ctl.cont {
		tc.cont[l] = func(*State) { escaped = true }
	}
	fv.execBlock(trial, x.Body.List, tc, func(s *State) { ends = append(ends, s) })
	same := !escaped && len(ends) == 1
	if same {
		e := ends[0]
		same = len(e.vars) == len(st.vars) && len(e.alias) == len(st.alias) && len(e.ghost) == len(st.ghost) && len(e.defers) == len(st.defers) && len(e.escaped) == len(st.escaped)
		if same {
			for k, v := range st.vars {
				if w, ok := e.vars[k]; !ok || w.S != v.S {
					same = false
				}
			}
			for k, v := range st.alias {
				if w, ok := e.alias[k]; !ok || w != v {
					same = false
				}
			}
			for k, v := range st.ghost {
				if w, ok := e.ghost[k]; !ok || w.S != v.S {
					same = false
				}
			}
		}
	}
	if same {
		fv.note("if-branch without effect on the state merged with its fall-through")
		return true
	}
	fv.obls, fv.batches, fv.paths = fv.obls[:n0], fv.batches[:b0], p0
	fv.oblSeq = seq0
	return false
}
