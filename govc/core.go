package main

// Core of the symbolic executor: state, obligations, fresh symbols.

import (
	"fmt"
	"go/ast"
	"go/token"
	"go/types"
	"path/filepath"
	"sort"
	"strings"

	"golang.org/x/tools/go/packages"
)

type Obligation struct {
	Name    string   `json:"name"`
	Kind    string   `json:"kind"`
	Func    string   `json:"func"`
	Text    string   `json:"clause"`
	Pos     string   `json:"pos"`
	Props   []string `json:"-"`
	PC      []string `json:"-"`
	Goal    string   `json:"-"`
	NDecl   int      `json:"-"`
	fv      *FV
	Raw     string `json:"-"` // complete script for lemma obligations
	Reveal  []string      `json:"-"` // opaque spec functions whose definition this obligation may use
	Batch   []*Obligation `json:"-"` // children proved together by this obligation (conjunction of their goals)
	InBatch *Obligation   `json:"-"`
	Verdict string `json:"verdict"`
	Solver  string `json:"solver"`
	Time    float64 `json:"time_s"`
	Output  string `json:"output,omitempty"`
	Size    int    `json:"smt_bytes"`
}

type StepKind int

const (
	StField StepKind = iota
	StIndex
	StMapKey
	StDeref
)

type PathStep struct {
	Kind  StepKind
	Field string
	Key   Term
	Pos   token.Pos
}

type Path struct {
	Root  types.Object
	Ghost string
	Steps []PathStep
}

type deferred struct {
	call *ast.CallExpr
}

type State struct {
	vars   map[types.Object]Term
	alias  map[types.Object]*Path
	ghost  map[string]Term
	pc     []string
	defers []deferred
	escaped map[types.Object]token.Pos // reference-typed variables whose value was stored into another location
}

func (s *State) clone() *State {
	n := &State{vars: make(map[types.Object]Term, len(s.vars)), alias: make(map[types.Object]*Path, len(s.alias)), ghost: make(map[string]Term, len(s.ghost))}
	for k, v := range s.vars {
		n.vars[k] = v
	}
	for k, v := range s.alias {
		n.alias[k] = v
	}
	for k, v := range s.ghost {
		n.ghost[k] = v
	}
	n.pc = s.pc[:len(s.pc):len(s.pc)]
	n.defers = s.defers[:len(s.defers):len(s.defers)]
	if len(s.escaped) > 0 {
		n.escaped = make(map[types.Object]token.Pos, len(s.escaped))
		for k, v := range s.escaped {
			n.escaped[k] = v
		}
	}
	return n
}

func (s *State) assume(t Term) {
	if t.S == "true" {
		return
	}
	s.pc = append(s.pc[:len(s.pc):len(s.pc)], t.S)
}

type abortErr struct{ msg string }

// sortedObjs returns map keys in a deterministic order (source position, then name).
func sortedObjs[V any](m map[types.Object]V) []types.Object {
	out := make([]types.Object, 0, len(m))
	for o := range m {
		out = append(out, o)
	}
	sort.Slice(out, func(i, j int) bool {
		if out[i].Pos() != out[j].Pos() {
			return out[i].Pos() < out[j].Pos()
		}
		return out[i].Name() < out[j].Name()
	})
	return out
}

func sortedKeys[V any](m map[string]V) []string {
	out := make([]string, 0, len(m))
	for k := range m {
		out = append(out, k)
	}
	sort.Strings(out)
	return out
}

type FV struct {
	p    *Program
	ss   *Sorts
	reg  *SpecReg
	fc   *FuncContract
	pk   *packages.Package
	info *types.Info

	decls   []string
	obls    []*Obligation
	nfresh  int
	paths   int
	maxPath int

	entryVars  map[string]Term // spec name -> entry value
	entryGhost map[string]Term
	specParam  map[string]types.Object
	modset     map[string]bool
	resNames   []string
	resObjs    []types.Object
	loopOrd    map[ast.Stmt]string
	litOrd     map[*ast.FuncLit]string
	notes      map[string]int
	oblSeq     map[string]int
	curFunc    string
	inlineDepth int
	curSig      *types.Signature
	curResObjs  []types.Object
	ifaceLink   map[string]Term
	boxed       map[string]Term
	assumedUsed map[string]bool
	calleesUsed map[string]bool
	quietUpdate bool
	batches     []*Obligation
	reveal      []string
	boxedFrom   map[string]boxInfo // interface terms known to hold a given concrete value
	tparams     map[string]types.Type
}

type boxInfo struct {
	v   Term
	typ types.Type
}

type Kont func(*State)

type Ctl struct {
	brk    map[string]Kont
	cont   map[string]Kont
	ret    func(*State, []Term)
	labels []string // pending labels for next loop
}

func (c *Ctl) with(label string, brk, cont Kont) *Ctl {
	n := &Ctl{brk: map[string]Kont{}, cont: map[string]Kont{}, ret: c.ret}
	for k, v := range c.brk {
		n.brk[k] = v
	}
	for k, v := range c.cont {
		n.cont[k] = v
	}
	if brk != nil {
		n.brk[""] = brk
		if label != "" {
			n.brk[label] = brk
		}
	}
	if cont != nil {
		n.cont[""] = cont
		if label != "" {
			n.cont[label] = cont
		}
	}
	return n
}

func (fv *FV) abort(pos token.Pos, f string, a ...any) {
	panic(abortErr{fv.posStr(pos) + ": " + fmt.Sprintf(f, a...)})
}

func (fv *FV) posStr(pos token.Pos) string {
	if !pos.IsValid() {
		return "-"
	}
	p := fv.p.Fset.Position(pos)
	return fmt.Sprintf("%s:%d", filepath.Base(p.Filename), p.Line)
}

func (fv *FV) note(s string) { fv.notes[s]++ }

func (fv *FV) fresh(hint string, so *Sort) Term {
	fv.nfresh++
	hint = mangle(hint)
	if len(hint) > 24 {
		hint = hint[:24]
	}
	n := fmt.Sprintf("%s!%d", hint, fv.nfresh)
	fv.decls = append(fv.decls, fmt.Sprintf("(declare-const %s %s)", n, so.Name))
	t := Term{n, so}
	for _, f := range fv.wfAll(t, 5) {
		fv.decls = append(fv.decls, "(assert "+f+")")
	}
	return t
}

// wfAll: slice lengths are not negative and maps are well formed, for everything reachable through struct fields / pointers.
func (fv *FV) wfAll(t Term, depth int) []string {
	out := wfFacts(t, depth)
	var walk func(t Term, d int)
	walk = func(t Term, d int) {
		if d == 0 || t.Sort == nil {
			return
		}
		switch t.Sort.Kind {
		case KMap:
			out = append(out, fv.ss.mapWf(t)...)
		case KStruct:
			for _, f := range t.Sort.Fields {
				walk(Term{sx(f.Acc, t.S), f.Sort}, d-1)
			}
		case KPtr:
			walk(ptrDrf(t), d-1)
		}
	}
	walk(t, depth)
	return out
}

// wfFacts: lengths of slices reachable through struct fields and non-nil pointers are not negative.
func wfFacts(t Term, depth int) []string {
	if depth == 0 || t.Sort == nil {
		return nil
	}
	switch t.Sort.Kind {
	case KSlice:
		out := []string{sx(">=", slLen(t).S, "0"), sx("<=", slLen(t).S, "9223372036854775807")} // a Go length is an int
		// every element is a valid value of its type as well
		if t.Sort.Elem != nil && depth > 1 {
			el := Term{sx("select", slArr(t).S, "wi"), t.Sort.Elem}
			if fs := wfFacts(el, min(depth-1, 2)); len(fs) > 0 {
				out = append(out, "(forall ((wi Int)) (! "+sx("and", append(fs, "true")...)+" :pattern ("+el.S+")))")
			}
		}
		return out
	case KSum:
		var out []string
		for _, c := range t.Sort.Ctors {
			if c.Payload == nil || c.Acc == "" {
				continue
			}
			for _, f := range wfFacts(Term{sx(c.Acc, t.S), c.Payload}, depth-1) {
				out = append(out, sx("=>", sx(c.Tester, t.S), f))
			}
		}
		return out
	case KStruct:
		var out []string
		for _, f := range t.Sort.Fields {
			out = append(out, wfFacts(Term{sx(f.Acc, t.S), f.Sort}, depth-1)...)
		}
		return out
	case KPtr:
		var out []string
		for _, f := range wfFacts(ptrDrf(t), depth-1) {
			out = append(out, f)
		}
		return out
	}
	return nil
}

// bind names a compound term with a fresh constant so that VCs stay small and readable.
func (fv *FV) bind(st *State, t Term, hint string) Term {
	if t.Sort == SBool || !strings.ContainsAny(t.S, " (") {
		return t
	}
	if len(t.S) < 24 {
		return t
	}
	c := fv.fresh(hint, t.Sort)
	st.assume(tEq(c, t))
	if bi, ok := fv.boxedFrom[t.S]; ok {
		fv.boxedFrom[c.S] = bi
	}
	return c
}

func (fv *FV) assert(st *State, kind string, goal Term, pos token.Pos, text string) {
	if goal.S == "true" {
		return
	}
	key := kind
	fv.oblSeq[key]++
	o := &Obligation{
		Name:  fmt.Sprintf("%s/%s#%d", fv.curFunc, kind, fv.oblSeq[key]),
		Kind:  kind,
		Func:  fv.curFunc,
		Text:  text,
		Pos:   fv.posStr(pos),
		PC:    st.pc[:len(st.pc):len(st.pc)],
		Goal:  goal.S,
		NDecl: len(fv.decls),
		Props: fv.fc.Props,
		fv:    fv,
		Reveal: append(append([]string{}, fv.fc.Reveal...), fv.reveal...),
	}
	fv.obls = append(fv.obls, o)
	// after asserting we may assume the goal on this path (standard)
	st.assume(goal)
}

// ---- spec environment for the function being verified -------------------------------------

func (fv *FV) specEnv(st *State, atPos token.Pos, results []Term, post bool) *SpecEnv {
	env := &SpecEnv{reg: fv.reg, pk: fv.pk, bound: map[string]Term{}, typeArgs: fv.typeParams()}
	env.lookup = func(name string, old bool) (Term, bool) {
		if strings.Contains(name, ".") {
			return fv.lookupGlobal(fv.pk, name)
		}
		// results
		if results != nil {
			for i, rn := range fv.resNames {
				if rn == name && rn != "_" {
					return results[i], true
				}
			}
		}
		// ghosts
		if _, ok := fv.reg.ghosts[name]; ok {
			if old {
				return fv.entryGhost[name], true
			}
			return st.ghost[name], true
		}
		// parameters by spec name
		if obj, ok := fv.specParam[name]; ok {
			if old || (post && !fv.modset[name]) {
				return fv.entryVars[name], true
			}
			return fv.readVar(st, obj), true
		}
		if old {
			if t, ok := fv.entryVars[name]; ok {
				return t, true
			}
		}
		// locals in scope at atPos
		if atPos.IsValid() {
			if sc := fv.pk.Types.Scope().Innermost(atPos); sc != nil {
				if _, obj := sc.LookupParent(name, atPos); obj != nil {
					if v, ok := obj.(*types.Var); ok {
						if _, has := st.vars[v]; has || st.alias[v] != nil {
							return fv.readVar(st, v), true
						}
					}
				}
			}
		}
		// any variable with that name currently live (loop-local names used by invariants)
		for _, obj := range sortedObjs(st.vars) {
			if obj.Name() == name {
				return fv.readVar(st, obj), true
			}
		}
		// package-level variable of the function's own package
		if v, ok := fv.pk.Types.Scope().Lookup(name).(*types.Var); ok {
			return fv.globalVar(v), true
		}
		// a local that was renamed since the contract was written
		if v := fv.rebind(name); v != nil {
			if _, has := st.vars[v]; has || st.alias[v] != nil {
				fv.note("contract name " + name + " rebound to the renamed local " + v.Name())
				return fv.readVar(st, v), true
			}
		}
		return Term{}, false
	}
	return env
}

// lookupGlobal resolves "pkg.Var" (a package-level variable) to its symbol.
func (fv *FV) lookupGlobal(pk *packages.Package, name string) (Term, bool) {
	i := strings.Index(name, ".")
	tp := fv.p.lookupPkgByName(pk, name[:i])
	if tp == nil {
		return Term{}, false
	}
	if v, ok := tp.Scope().Lookup(name[i+1:]).(*types.Var); ok {
		return fv.globalVar(v), true
	}
	return Term{}, false
}

// typeParams: the type parameters in scope of the function under verification (receiver and function type parameters).
func (fv *FV) typeParams() map[string]types.Type {
	if fv.tparams != nil {
		return fv.tparams
	}
	fv.tparams = map[string]types.Type{}
	if sig, ok := fv.fc.Obj.Type().(*types.Signature); ok {
		for _, l := range []*types.TypeParamList{sig.RecvTypeParams(), sig.TypeParams()} {
			if l == nil {
				continue
			}
			for i := 0; i < l.Len(); i++ {
				fv.tparams[l.At(i).Obj().Name()] = l.At(i)
			}
		}
	}
	return fv.tparams
}

func (fv *FV) readVar(st *State, obj types.Object) Term {
	if p := st.alias[obj]; p != nil {
		return fv.readPath(st, p, false)
	}
	if t, ok := st.vars[obj]; ok {
		return t
	}
	// package-level variable: treat as a fixed unknown (per verification run)
	if v, ok := obj.(*types.Var); ok && v.Parent() == v.Pkg().Scope() {
		return fv.globalVar(v)
	}
	fv.abort(obj.Pos(), "variable %s has no value", obj.Name())
	return Term{}
}

func (fv *FV) globalVar(v *types.Var) Term {
	so := fv.ss.Of(v.Type())
	name := "g_" + mangle(v.Pkg().Name()+"_"+v.Name())
	d := fmt.Sprintf("(declare-const %s %s)", name, so.Name)
	found := false
	for _, x := range fv.decls {
		if x == d {
			found = true
			break
		}
	}
	if !found {
		fv.decls = append(fv.decls, d)
		// known constants-in-practice
		if v.Pkg().Path() == "github.com/formancehq/ledger/internal/machine" && v.Name() == "Zero" {
			fv.decls = append(fv.decls, fmt.Sprintf("(assert (= %s (bint 0)))", name))
		}
		if v.Pkg().Path() == "github.com/formancehq/ledger/internal" && v.Name() == "Zero" {
			fv.decls = append(fv.decls, fmt.Sprintf("(assert (= %s (bint 0)))", name))
		}
		fv.globalInitFacts(v, Term{name, so})
		if so == SErr {
			fv.decls = append(fv.decls, fmt.Sprintf("(assert (not (= %s err_nil)))", name))
			fv.decls = append(fv.decls, fmt.Sprintf("(assert (errIs %s %s))", name, fv.ss.StrConst("errclass:"+v.Name())))
		}
	}
	return Term{name, so}
}


// globalInitFacts: a package-level variable declared as `var x = f(<constants>)` where f has a contract without
// requires/modifies (regexp.MustCompile) satisfies f's postconditions for those arguments. The declaration is read from
// the loaded source; reassignment of such variables elsewhere is not looked for (they are compile-once patterns).
func (fv *FV) globalInitFacts(v *types.Var, g Term) {
	dp := fv.p.AllPkgs[v.Pkg().Path()]
	if dp == nil || dp.TypesInfo == nil {
		return
	}
	var init ast.Expr
	for _, f := range dp.Syntax {
		for _, d := range f.Decls {
			gd, ok := d.(*ast.GenDecl)
			if !ok {
				continue
			}
			for _, sp := range gd.Specs {
				vs, ok := sp.(*ast.ValueSpec)
				if !ok || len(vs.Values) != len(vs.Names) {
					continue
				}
				for i, n := range vs.Names {
					if dp.TypesInfo.Defs[n] == v {
						init = vs.Values[i]
					}
				}
			}
		}
	}
	call, ok := init.(*ast.CallExpr)
	if !ok {
		return
	}
	var callee *types.Func
	switch f := call.Fun.(type) {
	case *ast.SelectorExpr:
		callee, _ = dp.TypesInfo.ObjectOf(f.Sel).(*types.Func)
	case *ast.Ident:
		callee, _ = dp.TypesInfo.ObjectOf(f).(*types.Func)
	}
	if callee == nil {
		return
	}
	fc := fv.p.Contracts[funcKey(callee)]
	if fc == nil || len(fc.Requires) > 0 || len(fc.Modifies) > 0 || len(fc.Results) != 1 || len(fc.Params) != len(call.Args) {
		return
	}
	vals := map[string]Term{fc.Results[0]: g}
	for i, a := range call.Args {
		tv, ok := dp.TypesInfo.Types[a]
		if !ok || tv.Value == nil {
			return
		}
		ct, ok := fv.constTerm(tv, a.Pos())
		if !ok {
			return
		}
		vals[fc.Params[i]] = ct
	}
	env := &SpecEnv{reg: fv.reg, pk: fc.Pkg, bound: map[string]Term{}}
	env.lookup = func(name string, old bool) (Term, bool) {
		t, ok := vals[name]
		return t, ok
	}
	for _, c := range fc.Ensures {
		t, err := env.EvalBool(c.X)
		if err != nil {
			return
		}
		fv.decls = append(fv.decls, "(assert "+t.S+")")
	}
	fv.assumedUsed[fv.p.funcDisplayName(fc)+" (initializer of "+v.Pkg().Name()+"."+v.Name()+")"] = true
}


// unsignedFacts: values of unsigned Go types are not negative, for the value itself, through pointers and struct fields.
func (fv *FV) unsignedFacts(t Term, gt types.Type, depth int) []string {
	if depth == 0 || t.Sort == nil || gt == nil {
		return nil
	}
	gt = types.Unalias(gt)
	switch t.Sort.Kind {
	case KInt:
		if isUnsigned(gt) {
			return []string{sx(">=", t.S, "0")}
		}
	case KPtr:
		if p, ok := gt.Underlying().(*types.Pointer); ok && t.Sort.Elem != nil {
			var out []string
			for _, f := range fv.unsignedFacts(ptrDrf(t), p.Elem(), depth-1) {
				out = append(out, sx("=>", sx("not", sx("=", t.S, ptrNil(t.Sort).S)), f))
			}
			return out
		}
	case KStruct:
		if st, ok := gt.Underlying().(*types.Struct); ok {
			var out []string
			for i := 0; i < st.NumFields(); i++ {
				if f := t.Sort.FieldByName(st.Field(i).Name()); f != nil {
					out = append(out, fv.unsignedFacts(Term{sx(f.Acc, t.S), f.Sort}, st.Field(i).Type(), depth-1)...)
				}
			}
			return out
		}
	}
	return nil
}


// ---- binding table: robustness of contracts to renamed locals ------------------------------------------------------
// bindings.json (written with -write-bindings when contracts are written, committed in /verif/contracts) records, per
// function under contract, every local variable with its declaration ordinal and type. When a contract mentions a name
// that no longer exists, the local with the recorded ordinal and the same type is used instead (a rename keeps both).

type LocalBinding struct {
	Name    string `json:"name"`
	Ordinal int    `json:"ordinal"`
	Type    string `json:"type"`
}

var bindingTable map[string][]LocalBinding

// localsOf lists the variables declared inside fd (parameters, results and body), ordered by position.
func localsOf(info *types.Info, fd *ast.FuncDecl) []*types.Var {
	var out []*types.Var
	ast.Inspect(fd, func(n ast.Node) bool {
		if id, ok := n.(*ast.Ident); ok {
			if v, ok := info.Defs[id].(*types.Var); ok && !v.IsField() {
				out = append(out, v)
			}
		}
		return true
	})
	sort.Slice(out, func(i, j int) bool { return out[i].Pos() < out[j].Pos() })
	return out
}

func bindingsOf(info *types.Info, fd *ast.FuncDecl) []LocalBinding {
	var out []LocalBinding
	for i, v := range localsOf(info, fd) {
		out = append(out, LocalBinding{Name: v.Name(), Ordinal: i, Type: types.TypeString(v.Type(), nil)})
	}
	return out
}

// rebind: the contract name is unknown in the current source; find the local that took its place.
func (fv *FV) rebind(name string) *types.Var {
	if bindingTable == nil || fv.fc.Decl == nil {
		return nil
	}
	key := fv.p.funcDisplayName(fv.fc)
	var want *LocalBinding
	n := 0
	for i := range bindingTable[key] {
		if bindingTable[key][i].Name == name {
			want = &bindingTable[key][i]
			n++
		}
	}
	if want == nil || n != 1 {
		return nil
	}
	locals := localsOf(fv.info, fv.fc.Decl)
	if len(locals) != len(bindingTable[key]) || want.Ordinal >= len(locals) {
		return nil // declarations were added or removed: ordinals no longer line up
	}
	v := locals[want.Ordinal]
	if types.TypeString(v.Type(), nil) != want.Type {
		return nil
	}
	for _, b := range bindingTable[key] {
		if b.Name == v.Name() {
			return nil // the candidate's name was already a local before: not a rename
		}
	}
	return v
}
