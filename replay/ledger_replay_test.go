package ledger

// Replay harness for internal/ (see machine_replay_test.go for the scheme): executable postconditions of
// Postings.Reverse, Transaction.VolumeUpdates and PostCommitVolumes.SubtractPostings on the real functions.

import (
	"fmt"
	"math/big"
	"math/rand"
	"os"
	"strconv"
	"testing"
)

func replaySeedL() int64 {
	if s, err := strconv.ParseInt(os.Getenv("VERIF_SEED"), 10, 64); err == nil {
		return s
	}
	return 1
}

func replayFailL(t *testing.T, fn string, input string, clause string) {
	fmt.Printf("REPLAY-FAIL %s %s :: %s\n", fn, input, clause)
	t.Fatalf("%s violates %q on %s", fn, clause, input)
}

var replayAccs = []string{"world", "a", "b"}
var replayAssets = []string{"USD", "EUR/2"}

func genPostingLists(r *rand.Rand, n int) []Postings {
	var out []Postings
	amounts := []int64{0, 1, 5}
	var rec func(ps Postings, depth int)
	rec = func(ps Postings, depth int) {
		out = append(out, append(Postings{}, ps...))
		if depth == 2 {
			return
		}
		for _, s := range replayAccs {
			for _, d := range replayAccs {
				for _, x := range replayAssets {
					for _, v := range amounts {
						rec(append(ps, NewPosting(s, d, x, big.NewInt(v))), depth+1)
					}
				}
			}
		}
	}
	rec(nil, 0)
	for i := 0; i < n; i++ {
		k := r.Intn(7)
		var ps Postings
		for j := 0; j < k; j++ {
			v := new(big.Int).Rand(r, new(big.Int).Lsh(big.NewInt(1), uint(1+r.Intn(130))))
			ps = append(ps, NewPosting(replayAccs[r.Intn(3)], replayAccs[r.Intn(3)], replayAssets[r.Intn(2)], v))
		}
		out = append(out, ps)
	}
	return out
}

func creditsOf(ps Postings, acc, asset string) *big.Int {
	s := new(big.Int)
	for _, p := range ps {
		if p.Destination == acc && p.Asset == asset {
			s.Add(s, p.Amount)
		}
	}
	return s
}

func debitsOf(ps Postings, acc, asset string) *big.Int {
	s := new(big.Int)
	for _, p := range ps {
		if p.Source == acc && p.Asset == asset {
			s.Add(s, p.Amount)
		}
	}
	return s
}

func TestReplayPostingsReverse(t *testing.T) {
	r := rand.New(rand.NewSource(replaySeedL()))
	for _, ps := range genPostingLists(r, 300) {
		in := fmt.Sprintf("postings=%v", ps)
		orig := append(Postings{}, ps...)
		rev := ps.Reverse()
		if len(rev) != len(orig) {
			replayFailL(t, "Postings.Reverse", in, "len(r) == len(p)")
		}
		for i := range orig {
			o := orig[len(orig)-1-i]
			if rev[i].Source != o.Destination || rev[i].Destination != o.Source || rev[i].Asset != o.Asset || rev[i].Amount.Cmp(o.Amount) != 0 {
				replayFailL(t, "Postings.Reverse", in, "forall i :: r[i] is p[len(p)-1-i] with source and destination swapped")
			}
			if ps[i].Source != orig[i].Source || ps[i].Destination != orig[i].Destination {
				replayFailL(t, "Postings.Reverse", in, "the receiver is not modified")
			}
		}
	}
}

func TestReplayVolumeUpdates(t *testing.T) {
	r := rand.New(rand.NewSource(replaySeedL()))
	for _, ps := range genPostingLists(r, 300) {
		in := fmt.Sprintf("postings=%v", ps)
		tx := Transaction{TransactionData: TransactionData{Postings: ps}}
		ups := tx.VolumeUpdates()
		seen := map[string]bool{}
		for _, u := range ups {
			key := u.Account + "|" + u.Asset
			if seen[key] {
				replayFailL(t, "Transaction.VolumeUpdates", in, "one entry per (account, asset)")
			}
			seen[key] = true
			if u.Input.Cmp(creditsOf(ps, u.Account, u.Asset)) != 0 || u.Output.Cmp(debitsOf(ps, u.Account, u.Asset)) != 0 {
				replayFailL(t, "Transaction.VolumeUpdates", in, "badUpd(ret, tx.Postings) == 0: every entry carries (credits, debits) of its (account, asset)")
			}
		}
		for _, p := range ps {
			if !seen[p.Source+"|"+p.Asset] || !seen[p.Destination+"|"+p.Asset] {
				replayFailL(t, "Transaction.VolumeUpdates", in, "forall i :: countUpd(ret, source_i, asset_i) > 0 && countUpd(ret, destination_i, asset_i) > 0")
			}
		}
	}
}

func TestReplaySubtractPostings(t *testing.T) {
	r := rand.New(rand.NewSource(replaySeedL()))
	for _, ps := range genPostingLists(r, 300) {
		if len(ps) == 0 {
			continue
		}
		in := fmt.Sprintf("postings=%v", ps)
		pcv := PostCommitVolumes{}
		base := big.NewInt(1000)
		for _, p := range ps {
			for _, acc := range []string{p.Source, p.Destination} {
				if pcv[acc] == nil {
					pcv[acc] = VolumesByAssets{}
				}
				pcv[acc][p.Asset] = NewVolumesInt64(1000, 1000)
			}
		}
		got := pcv.SubtractPostings(ps)
		for acc, byAsset := range pcv {
			for asset, v := range byAsset {
				if v.Input.Cmp(base) != 0 || v.Output.Cmp(base) != 0 {
					replayFailL(t, "PostCommitVolumes.SubtractPostings", in, "the receiver is not modified")
				}
				wantIn := new(big.Int).Sub(base, creditsOf(ps, acc, asset))
				wantOut := new(big.Int).Sub(base, debitsOf(ps, acc, asset))
				if got[acc][asset].Input.Cmp(wantIn) != 0 || got[acc][asset].Output.Cmp(wantOut) != 0 {
					replayFailL(t, "PostCommitVolumes.SubtractPostings", in, "ret[acc][asset] == a[acc][asset] - (credits, debits)(postings, acc, asset)")
				}
			}
		}
	}
}
