package vm

// Replay harness for internal/machine/vm (see machine_replay_test.go for the scheme): executable postconditions of
// Machine.withdrawAll, withdrawAlways, credit and repay on the real functions.

import (
	"fmt"
	"math/big"
	"math/rand"
	"os"
	"strconv"
	"testing"

	"github.com/formancehq/ledger/internal/machine"
)

func replaySeedV() int64 {
	if s, err := strconv.ParseInt(os.Getenv("VERIF_SEED"), 10, 64); err == nil {
		return s
	}
	return 1
}

func replayFailV(t *testing.T, fn string, input string, clause string) {
	fmt.Printf("REPLAY-FAIL %s %s :: %s\n", fn, input, clause)
	t.Fatalf("%s violates %q on %s", fn, clause, input)
}

type balMap = map[machine.AccountAddress]map[machine.Asset]*machine.MonetaryInt

var rAccs = []machine.AccountAddress{"a", "b", "world"}
var rAssets = []machine.Asset{"USD", "EUR"}

func genBalances(r *rand.Rand, big_ bool) balMap {
	b := balMap{}
	for _, a := range rAccs {
		if r.Intn(4) == 0 {
			continue
		}
		b[a] = map[machine.Asset]*machine.MonetaryInt{}
		for _, x := range rAssets {
			if r.Intn(3) == 0 {
				continue
			}
			v := big.NewInt(int64(r.Intn(21) - 10))
			if big_ {
				v = new(big.Int).Rand(r, new(big.Int).Lsh(big.NewInt(1), uint(1+r.Intn(100))))
				if r.Intn(3) == 0 {
					v.Neg(v)
				}
			}
			b[a][x] = machine.NewMonetaryIntFromBigInt(v)
		}
	}
	return b
}

func copyBal(b balMap) balMap {
	c := balMap{}
	for a, m := range b {
		c[a] = map[machine.Asset]*machine.MonetaryInt{}
		for x, v := range m {
			c[a][x] = machine.NewMonetaryIntFromBigInt(new(big.Int).Set((*big.Int)(v)))
		}
	}
	return c
}

func balStr(b balMap) string {
	s := "{"
	for _, a := range rAccs {
		for _, x := range rAssets {
			if m, ok := b[a]; ok {
				if v, ok := m[x]; ok {
					s += fmt.Sprintf(" %s/%s=%v", a, x, v)
				}
			}
		}
	}
	return s + " }"
}

func get(b balMap, a machine.AccountAddress, x machine.Asset) (*big.Int, bool) {
	if m, ok := b[a]; ok {
		if v, ok := m[x]; ok {
			return (*big.Int)(v), true
		}
	}
	return nil, false
}

// othersUnchanged: every pair other than (acc, asset) keeps its balance and its presence
func othersUnchanged(before, after balMap, acc machine.AccountAddress, asset machine.Asset) bool {
	for _, a := range rAccs {
		for _, x := range rAssets {
			if a == acc && x == asset {
				continue
			}
			v0, ok0 := get(before, a, x)
			v1, ok1 := get(after, a, x)
			if ok0 != ok1 || (ok0 && v0.Cmp(v1) != 0) {
				return false
			}
		}
	}
	return true
}

func TestReplayWithdrawAll(t *testing.T) {
	r := rand.New(rand.NewSource(replaySeedV()))
	for n := 0; n < 4000; n++ {
		b := genBalances(r, n%2 == 1)
		acc, asset := rAccs[r.Intn(3)], rAssets[r.Intn(2)]
		od := big.NewInt(int64(r.Intn(12)))
		if n%2 == 1 {
			od = new(big.Int).Rand(r, new(big.Int).Lsh(big.NewInt(1), uint(1+r.Intn(100))))
		}
		in := fmt.Sprintf("balances=%s account=%s asset=%s overdraft=%v", balStr(b), acc, asset, od)
		before := copyBal(b)
		m := &Machine{Balances: b}
		f, err := m.withdrawAll(acc, asset, machine.NewMonetaryIntFromBigInt(new(big.Int).Set(od)))
		t0, tracked := get(before, acc, asset)
		if !tracked {
			if err == nil {
				replayFailV(t, "Machine.withdrawAll", in, "!tracked(old(m.Balances), account, asset) ==> err != nil && m.Balances == old(m.Balances)")
			}
			continue
		}
		if err != nil || f == nil || len(f.Parts) != 1 || f.Asset != asset || f.Parts[0].Account != account(acc) {
			replayFailV(t, "Machine.withdrawAll", in, "tracked ==> err == nil && f != nil && f.Asset == asset && len(f.Parts) == 1 && f.Parts[0].Account == account")
		}
		want := new(big.Int).Add(t0, od)
		if want.Sign() < 0 {
			want.SetInt64(0)
		}
		if (*big.Int)(f.Parts[0].Amount).Cmp(want) != 0 {
			replayFailV(t, "Machine.withdrawAll", in, "tracked ==> val(f.Parts[0].Amount) == max(0, bal(old(m.Balances), account, asset) + val(overdraft))")
		}
		t1, _ := get(m.Balances, acc, asset)
		wantBal := new(big.Int).Set(t0)
		if new(big.Int).Add(t0, od).Sign() > 0 {
			wantBal.Neg(od)
		}
		if t1.Cmp(wantBal) != 0 {
			replayFailV(t, "Machine.withdrawAll", in, "tracked ==> bal(m.Balances, account, asset) == (bal(old) + val(overdraft) > 0 ? 0 - val(overdraft) : bal(old))")
		}
		if !othersUnchanged(before, m.Balances, acc, asset) {
			replayFailV(t, "Machine.withdrawAll", in, "forall (a, x) != (account, asset) :: bal(m.Balances, a, x) == bal(old(m.Balances), a, x)")
		}
	}
}

func account(a machine.AccountAddress) machine.AccountAddress { return a }

func genFundingV(r *rand.Rand, big_ bool) machine.Funding {
	f := machine.Funding{Asset: rAssets[r.Intn(2)]}
	for j := r.Intn(5); j > 0; j-- {
		v := big.NewInt(int64(r.Intn(8)))
		if big_ {
			v = new(big.Int).Rand(r, new(big.Int).Lsh(big.NewInt(1), uint(1+r.Intn(100))))
		}
		f.Parts = append(f.Parts, machine.FundingPart{Account: rAccs[r.Intn(3)], Amount: machine.NewMonetaryIntFromBigInt(v)})
	}
	return f
}

func TestReplayCreditRepayWithdrawAlways(t *testing.T) {
	r := rand.New(rand.NewSource(replaySeedV()))
	for n := 0; n < 4000; n++ {
		big_ := n%2 == 1
		// credit
		b := genBalances(r, big_)
		f := genFundingV(r, big_)
		acc := rAccs[r.Intn(3)]
		in := fmt.Sprintf("balances=%s account=%s funding=%v", balStr(b), acc, f)
		before := copyBal(b)
		m := &Machine{Balances: b}
		m.credit(acc, f)
		tot := new(big.Int)
		for _, p := range f.Parts {
			tot.Add(tot, (*big.Int)(p.Amount))
		}
		if t0, tracked := get(before, acc, f.Asset); tracked && acc != "world" {
			t1, _ := get(m.Balances, acc, f.Asset)
			if t1.Cmp(new(big.Int).Add(t0, tot)) != 0 {
				replayFailV(t, "Machine.credit", in, "account != \"world\" && tracked ==> bal(m.Balances, account, funding.Asset) == bal(old) + total(funding.Parts)")
			}
		} else if !othersUnchanged(before, m.Balances, "", "") {
			replayFailV(t, "Machine.credit", in, "!(account != \"world\" && tracked) ==> m.Balances == old(m.Balances)")
		}
		if !othersUnchanged(before, m.Balances, acc, f.Asset) {
			replayFailV(t, "Machine.credit", in, "forall (a, x) != (account, funding.Asset) :: unchanged")
		}
		// repay
		b = genBalances(r, big_)
		f = genFundingV(r, big_)
		in = fmt.Sprintf("balances=%s funding=%v", balStr(b), f)
		before = copyBal(b)
		m = &Machine{Balances: b}
		m.repay(f)
		for _, a := range rAccs {
			sum := new(big.Int)
			for _, p := range f.Parts {
				if p.Account == a {
					sum.Add(sum, (*big.Int)(p.Amount))
				}
			}
			_, has := before[a]
			t0, ok0 := get(before, a, f.Asset)
			if !ok0 {
				t0 = new(big.Int)
			}
			t1, ok1 := get(m.Balances, a, f.Asset)
			if !ok1 {
				t1 = new(big.Int)
			}
			want := new(big.Int).Set(t0)
			if a != "world" && has {
				want.Add(want, sum)
			}
			if t1.Cmp(want) != 0 {
				replayFailV(t, "Machine.repay", in, "forall a :: bal(m.Balances, a, funding.Asset) == bal(old, a, funding.Asset) + ((a != \"world\" && has(old(m.Balances), a)) ? sumBy(funding.Parts, a) : 0)")
			}
			for _, x := range rAssets {
				if x == f.Asset {
					continue
				}
				v0, k0 := get(before, a, x)
				v1, k1 := get(m.Balances, a, x)
				if k0 != k1 || (k0 && v0.Cmp(v1) != 0) {
					replayFailV(t, "Machine.repay", in, "forall a, x != funding.Asset :: unchanged")
				}
			}
		}
		// withdrawAlways
		b = genBalances(r, big_)
		acc = rAccs[r.Intn(3)]
		mon := machine.Monetary{Asset: rAssets[r.Intn(2)], Amount: machine.NewMonetaryInt(int64(r.Intn(9)))}
		in = fmt.Sprintf("balances=%s account=%s mon=%v", balStr(b), acc, mon)
		before = copyBal(b)
		m = &Machine{Balances: b}
		fw, err := m.withdrawAlways(acc, mon)
		if err != nil || fw == nil || len(fw.Parts) != 1 || fw.Parts[0].Account != acc || fw.Asset != mon.Asset || (*big.Int)(fw.Parts[0].Amount).Cmp((*big.Int)(mon.Amount)) != 0 {
			replayFailV(t, "Machine.withdrawAlways", in, "err == nil && f.Asset == mon.Asset && len(f.Parts) == 1 && f.Parts[0].Account == account && f.Parts[0].Amount == mon.Amount")
		}
		if t0, tracked := get(before, acc, mon.Asset); tracked {
			t1, _ := get(m.Balances, acc, mon.Asset)
			if t1.Cmp(new(big.Int).Sub(t0, (*big.Int)(mon.Amount))) != 0 {
				replayFailV(t, "Machine.withdrawAlways", in, "tracked ==> bal(m.Balances, account, mon.Asset) == bal(old) - val(mon.Amount)")
			}
		}
		if !othersUnchanged(before, m.Balances, acc, mon.Asset) {
			replayFailV(t, "Machine.withdrawAlways", in, "forall (a, x) != (account, mon.Asset) :: unchanged")
		}
	}
}
