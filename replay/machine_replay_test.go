package machine

// Replay harness (injected with `go test -overlay`, never written to /repo): the postconditions of the contracts of
// Funding.Take / TakeMax / Concat / Reverse / Total, Allotment.Allocate and NewAllotment in executable form, run on the real
// functions over a small exhaustive scope plus seeded random large inputs. When a contract obligation of one of these
// functions stops discharging, ./check runs this harness to look for a concrete failing input; the first one found is
// printed as a line `REPLAY-FAIL <function> <input> :: <violated clause>`.
// The Go predicates below are hand-translated from the `ensures` clauses in zz_contracts_verif.go (same order).

import (
	"fmt"
	"math/big"
	"math/rand"
	"os"
	"strconv"
	"testing"
)

func rbig(v *MonetaryInt) *big.Int { return (*big.Int)(v) }

func sumBy(ps []FundingPart, a AccountAddress) *big.Int {
	s := new(big.Int)
	for _, p := range ps {
		if p.Account == a {
			s.Add(s, rbig(p.Amount))
		}
	}
	return s
}

func total(ps []FundingPart) *big.Int {
	s := new(big.Int)
	for _, p := range ps {
		s.Add(s, rbig(p.Amount))
	}
	return s
}

func wfParts(ps []FundingPart) bool {
	for _, p := range ps {
		if p.Amount == nil || rbig(p.Amount).Sign() < 0 {
			return false
		}
	}
	return true
}

func cloneFunding(f Funding) Funding {
	c := Funding{Asset: f.Asset, Parts: make([]FundingPart, len(f.Parts))}
	for i, p := range f.Parts {
		c.Parts[i] = FundingPart{Account: p.Account, Amount: NewMonetaryIntFromBigInt(new(big.Int).Set(rbig(p.Amount)))}
	}
	return c
}

var replayAccounts = []AccountAddress{"a", "b", "world"}

func replayFail(t *testing.T, fn string, input string, clause string) {
	fmt.Printf("REPLAY-FAIL %s %s :: %s\n", fn, input, clause)
	t.Fatalf("%s violates %q on %s", fn, clause, input)
}

func genFundings(r *rand.Rand, n int) []Funding {
	var out []Funding
	amounts := []int64{0, 1, 2, 5}
	// exhaustive small scope: up to 3 parts over 3 accounts, amounts in {0,1,2,5}
	var rec func(parts []FundingPart, depth int)
	rec = func(parts []FundingPart, depth int) {
		out = append(out, Funding{Asset: "USD", Parts: append([]FundingPart{}, parts...)})
		if depth == 3 {
			return
		}
		for _, a := range replayAccounts {
			for _, v := range amounts {
				rec(append(parts, FundingPart{Account: a, Amount: NewMonetaryInt(v)}), depth+1)
			}
		}
	}
	rec(nil, 0)
	// random large
	for i := 0; i < n; i++ {
		k := r.Intn(6)
		f := Funding{Asset: "USD"}
		for j := 0; j < k; j++ {
			v := new(big.Int).Rand(r, new(big.Int).Lsh(big.NewInt(1), uint(1+r.Intn(130))))
			f.Parts = append(f.Parts, FundingPart{Account: replayAccounts[r.Intn(3)], Amount: NewMonetaryIntFromBigInt(v)})
		}
		out = append(out, f)
	}
	return out
}

func replaySeed() int64 {
	if s, err := strconv.ParseInt(os.Getenv("VERIF_SEED"), 10, 64); err == nil {
		return s
	}
	return 1
}

func amountsFor(r *rand.Rand, f Funding) []*big.Int {
	tot := total(f.Parts)
	out := []*big.Int{big.NewInt(-1), big.NewInt(0), big.NewInt(1), new(big.Int).Set(tot), new(big.Int).Add(tot, big.NewInt(1))}
	if tot.Sign() > 0 {
		out = append(out, new(big.Int).Sub(tot, big.NewInt(1)), new(big.Int).Rand(r, tot))
	}
	return out
}

func TestReplayFundingTake(t *testing.T) {
	r := rand.New(rand.NewSource(replaySeed()))
	for _, f := range genFundings(r, 300) {
		for _, amt := range amountsFor(r, f) {
			in := fmt.Sprintf("f=%v amount=%v", f, amt)
			f0 := cloneFunding(f)
			result, remainder, err := cloneFunding(f).Take(NewMonetaryIntFromBigInt(new(big.Int).Set(amt)))
			wantErr := amt.Sign() < 0 || amt.Cmp(total(f0.Parts)) > 0
			if (err != nil) != wantErr {
				replayFail(t, "Funding.Take", in, "(err != nil) <==> (val(amount) < 0 || val(amount) > total(f.Parts))")
			}
			if err != nil {
				continue
			}
			if total(result.Parts).Cmp(amt) != 0 {
				replayFail(t, "Funding.Take", in, "err == nil ==> total(result.Parts) == val(amount)")
			}
			for _, a := range replayAccounts {
				if new(big.Int).Add(sumBy(result.Parts, a), sumBy(remainder.Parts, a)).Cmp(sumBy(f0.Parts, a)) != 0 {
					replayFail(t, "Funding.Take", in, "err == nil ==> forall a :: sumBy(result.Parts, a) + sumBy(remainder.Parts, a) == sumBy(f.Parts, a)")
				}
			}
			if !wfParts(result.Parts) || !wfParts(remainder.Parts) {
				replayFail(t, "Funding.Take", in, "err == nil ==> wfParts(result.Parts) && wfParts(remainder.Parts)")
			}
			if result.Asset != f0.Asset || remainder.Asset != f0.Asset {
				replayFail(t, "Funding.Take", in, "err == nil ==> result.Asset == f.Asset && remainder.Asset == f.Asset")
			}
		}
	}
}

func TestReplayFundingTakeMax(t *testing.T) {
	r := rand.New(rand.NewSource(replaySeed()))
	for _, f := range genFundings(r, 300) {
		for _, amt := range amountsFor(r, f) {
			in := fmt.Sprintf("f=%v amount=%v", f, amt)
			f0 := cloneFunding(f)
			result, remainder := cloneFunding(f).TakeMax(NewMonetaryIntFromBigInt(new(big.Int).Set(amt)))
			want := new(big.Int).Set(amt)
			if want.Sign() < 0 {
				want.SetInt64(0)
			}
			if want.Cmp(total(f0.Parts)) > 0 {
				want.Set(total(f0.Parts))
			}
			if total(result.Parts).Cmp(want) != 0 {
				replayFail(t, "Funding.TakeMax", in, "total(result.Parts) == min(max(val(amount), 0), total(f.Parts))")
			}
			for _, a := range replayAccounts {
				if new(big.Int).Add(sumBy(result.Parts, a), sumBy(remainder.Parts, a)).Cmp(sumBy(f0.Parts, a)) != 0 {
					replayFail(t, "Funding.TakeMax", in, "forall a :: sumBy(result.Parts, a) + sumBy(remainder.Parts, a) == sumBy(f.Parts, a)")
				}
			}
			if !wfParts(result.Parts) || !wfParts(remainder.Parts) {
				replayFail(t, "Funding.TakeMax", in, "wfParts(result.Parts) && wfParts(remainder.Parts)")
			}
		}
	}
}

func TestReplayFundingConcatReverseTotal(t *testing.T) {
	r := rand.New(rand.NewSource(replaySeed()))
	fs := genFundings(r, 60)
	for i, f := range fs {
		in := fmt.Sprintf("f=%v", f)
		if rbig(f.Total()).Cmp(total(f.Parts)) != 0 {
			replayFail(t, "Funding.Total", in, "val(r) == total(f.Parts)")
		}
		rev := cloneFunding(f).Reverse()
		if len(rev.Parts) != len(f.Parts) || total(rev.Parts).Cmp(total(f.Parts)) != 0 {
			replayFail(t, "Funding.Reverse", in, "len(r.Parts) == len(f.Parts) && total(r.Parts) == total(f.Parts)")
		}
		for j := range f.Parts {
			if !rev.Parts[j].Equals(f.Parts[len(f.Parts)-1-j]) {
				replayFail(t, "Funding.Reverse", in, "forall j :: r.Parts[j] == f.Parts[len(f.Parts) - 1 - j]")
			}
		}
		if i%7 != 0 {
			continue
		}
		for k, g := range fs {
			if k%11 != 0 {
				continue
			}
			f0, g0 := cloneFunding(f), cloneFunding(g)
			res, err := cloneFunding(f).Concat(cloneFunding(g))
			in2 := fmt.Sprintf("f=%v other=%v", f0, g0)
			if err != nil {
				replayFail(t, "Funding.Concat", in2, "(err != nil) <==> (f.Asset != other.Asset)")
			}
			for _, a := range replayAccounts {
				if sumBy(res.Parts, a).Cmp(new(big.Int).Add(sumBy(f0.Parts, a), sumBy(g0.Parts, a))) != 0 {
					replayFail(t, "Funding.Concat", in2, "err == nil ==> forall a :: sumBy(res.Parts, a) == sumBy(f.Parts, a) + sumBy(other.Parts, a)")
				}
			}
		}
	}
}

func genAllotments(r *rand.Rand, n int) []Allotment {
	var out []Allotment
	mk := func(fracs ...[2]int64) Allotment {
		var a Allotment
		for _, f := range fracs {
			a = append(a, *big.NewRat(f[0], f[1]))
		}
		return a
	}
	out = append(out, mk([2]int64{1, 1}), mk([2]int64{1, 2}, [2]int64{1, 2}), mk([2]int64{1, 3}, [2]int64{2, 3}), mk([2]int64{1, 3}, [2]int64{1, 3}, [2]int64{1, 3}),
		mk([2]int64{1, 8}, [2]int64{1, 8}, [2]int64{1, 8}, [2]int64{5, 8}), mk([2]int64{0, 1}, [2]int64{1, 1}), mk([2]int64{33, 100}, [2]int64{67, 100}), mk([2]int64{29, 1000}, [2]int64{971, 1000}))
	for i := 0; i < n; i++ {
		k := 1 + r.Intn(6)
		den := int64(1 + r.Intn(1000))
		left := den
		var a Allotment
		for j := 0; j < k-1; j++ {
			v := r.Int63n(left + 1)
			a = append(a, *big.NewRat(v, den))
			left -= v
		}
		a = append(a, *big.NewRat(left, den))
		out = append(out, a)
	}
	return out
}

func TestReplayAllocate(t *testing.T) {
	r := rand.New(rand.NewSource(replaySeed()))
	amounts := []*big.Int{big.NewInt(0), big.NewInt(1), big.NewInt(2), big.NewInt(7), big.NewInt(100), big.NewInt(1000000000000000000),
		new(big.Int).Sub(new(big.Int).Lsh(big.NewInt(1), 63), big.NewInt(1)), new(big.Int).Sub(new(big.Int).Lsh(big.NewInt(1), 64), big.NewInt(1)),
		new(big.Int).Add(new(big.Int).Lsh(big.NewInt(1), 64), big.NewInt(1)), new(big.Int).Exp(big.NewInt(10), big.NewInt(30), nil)}
	for i := 0; i < 40; i++ {
		amounts = append(amounts, new(big.Int).Rand(r, new(big.Int).Lsh(big.NewInt(1), uint(1+r.Intn(100)))))
	}
	for _, a := range genAllotments(r, 200) {
		for _, amt := range amounts {
			in := fmt.Sprintf("allotment=%v amount=%v", a, amt)
			parts := a.Allocate(NewMonetaryIntFromBigInt(new(big.Int).Set(amt)))
			if len(parts) != len(a) {
				replayFail(t, "Allotment.Allocate", in, "len(parts) == len(a)")
			}
			sum, floorsum := new(big.Int), new(big.Int)
			floors := make([]*big.Int, len(a))
			for i := range a {
				if parts[i] == nil {
					replayFail(t, "Allotment.Allocate", in, "forall i :: parts[i] != nil")
				}
				sum.Add(sum, rbig(parts[i]))
				fl := new(big.Int).Mul(amt, a[i].Num())
				fl.Div(fl, a[i].Denom())
				floors[i] = fl
				floorsum.Add(floorsum, fl)
			}
			if sum.Cmp(amt) != 0 {
				replayFail(t, "Allotment.Allocate", in, "psum(parts) == val(amount)")
			}
			left := new(big.Int).Sub(amt, floorsum)
			for i := range a {
				want := new(big.Int).Set(floors[i])
				if big.NewInt(int64(i)).Cmp(left) < 0 {
					want.Add(want, big.NewInt(1))
				}
				if rbig(parts[i]).Cmp(want) != 0 {
					replayFail(t, "Allotment.Allocate", in, "forall i :: val(parts[i]) == floorShare(val(amount), a[i]) + (i < val(amount) - floorsum(a, val(amount)) ? 1 : 0)")
				}
			}
		}
	}
}

func TestReplayNewAllotment(t *testing.T) {
	r := rand.New(rand.NewSource(replaySeed()))
	for n := 0; n < 3000; n++ {
		k := r.Intn(5)
		den := int64(1 + r.Intn(20))
		var ps []Portion
		nrem := 0
		tot := new(big.Rat)
		for j := 0; j < k; j++ {
			if r.Intn(4) == 0 {
				ps = append(ps, Portion{Remaining: true})
				nrem++
			} else {
				q := big.NewRat(r.Int63n(den+1), den)
				tot.Add(tot, q)
				ps = append(ps, Portion{Specific: q})
			}
		}
		in := fmt.Sprintf("portions=%v", ps)
		a, err := NewAllotment(ps)
		if nrem > 1 && err == nil {
			replayFail(t, "NewAllotment", in, "remCount(portions) > 1 ==> err != nil")
		}
		if err != nil {
			continue
		}
		sum := new(big.Rat)
		for i, q := range *a {
			if q.Sign() < 0 {
				replayFail(t, "NewAllotment", in, "err == nil ==> posDen(deref(r))")
			}
			sum.Add(sum, &(*a)[i])
			if !ps[i].Remaining && q.Cmp(ps[i].Specific) != 0 {
				replayFail(t, "NewAllotment", in, "err == nil ==> forall i :: !portions[i].Remaining ==> deref(r)[i] == deref(portions[i].Specific)")
			}
		}
		if sum.Cmp(big.NewRat(1, 1)) > 0 {
			replayFail(t, "NewAllotment", in, "err == nil ==> ratsum(deref(r)) <= 1")
		}
		if nrem > 0 && sum.Cmp(big.NewRat(1, 1)) != 0 {
			replayFail(t, "NewAllotment", in, "err == nil && remCount(portions) > 0 ==> ratsum(deref(r)) == 1")
		}
	}
}
