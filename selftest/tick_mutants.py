#!/usr/bin/env python3
"""Must-fail corpus for the Machine.tick step contract: each mutant is a one-line edit of internal/machine/vm/machine.go that
compiles; the C22/C23/C27 obligations of tick must stop discharging on every one. Runs on a scratch worktree outside /repo
and /verif, removed afterwards.  usage: selftest/tick_mutants.py [name ...]"""
import subprocess, sys, os, shutil, tempfile
MUT = {
 "take-drops-remainder": ("\t\tm.pushValue(remainder)\n\t\tm.pushValue(result)\n\n\tcase program.OP_TAKE_MAX:", "\t\t_ = remainder\n\t\tm.pushValue(result)\n\t\tm.pushValue(result)\n\n\tcase program.OP_TAKE_MAX:"),
 "send-no-credit": ("\t\tm.credit(dest, funding)\n", "\t\t_ = dest\n"),
 "send-swapped": ("Source:      string(src),\n\t\t\t\tDestination: string(dest),", "Source:      string(dest),\n\t\t\t\tDestination: string(src),"),
 "repay-dropped": ("\t\tm.repay(pop[machine.Funding](m))", "\t\tpop[machine.Funding](m)"),
 "assemble-drops-one": ("for i := 0; i < n; i++ {\n\t\t\tres, err := result.Concat", "for i := 0; i < n-1; i++ {\n\t\t\tres, err := result.Concat"),
 "reverse-duplicates": ("\t\tresult := funding.Reverse()\n\t\tm.pushValue(result)", "\t\tresult := funding.Reverse()\n\t\tm.pushValue(funding)\n\t\tm.pushValue(result)"),
 "delete-accepts-funding": ("if n.GetType() == machine.TypeFunding {", "if n.GetType() == machine.TypeFunding && false {"),
 "takeall-wrong-asset": ("funding, err := m.withdrawAll(account, overdraft.Asset, overdraft.Amount)\n\t\tif err != nil {\n\t\t\treturn true, machine.NewErrInvalidScript(\"%s\", err)\n\t\t}\n\t\tm.pushValue(*funding)", "funding, err := m.withdrawAll(account, overdraft.Asset, overdraft.Amount)\n\t\tif err != nil {\n\t\t\treturn true, machine.NewErrInvalidScript(\"%s\", err)\n\t\t}\n\t\tfunding.Parts[0].Amount = funding.Parts[0].Amount.Add(machine.NewMonetaryInt(1))\n\t\tm.pushValue(*funding)"),
 "save-adds": ("balances[v.Asset] = balance.Sub(v.Amount)", "balances[v.Asset] = balance.Add(v.Amount)"),
 "send-posting-amount": ("Amount:      amt,", "Amount:      amt.Add(amt),"),
}
def main():
    names = sys.argv[1:] or sorted(MUT)
    wt = tempfile.mkdtemp(prefix="govc-selftest-")
    os.rmdir(wt)
    subprocess.run(["git", "-C", "/repo", "worktree", "add", "--detach", "-q", wt, "HEAD"], check=True)
    missed = []
    try:
        f = os.path.join(wt, "internal/machine/vm/machine.go")
        orig = open(f).read()
        for n in names:
            a, b = MUT[n]
            if orig.count(a) != 1:
                print(f"{n}: PATTERN-NOT-FOUND ({orig.count(a)})"); missed.append(n); continue
            open(f, "w").write(orig.replace(a, b))
            bld = subprocess.run("cd %s && PATH=/opt/veriftools/go1.26.8/bin:$PATH GOFLAGS=-mod=mod GOPROXY=off GOSUMDB=off GOTOOLCHAIN=local go build ./internal/machine/vm/" % wt, shell=True, capture_output=True, text=True)
            if bld.returncode != 0:
                print(f"{n}: DOES-NOT-COMPILE {bld.stderr[:200]}"); missed.append(n); open(f, "w").write(orig); continue
            r = subprocess.run(["/verif/bin/govc", "-repo", wt, "-prop", "C22,C23,C27", "-func", "Machine.tick", "-replays", wt + "/.replays", "-timeout", "5"], capture_output=True, text=True)
            v = [l for l in r.stdout.splitlines() if l.startswith("VIOLATION")]
            kinds = sorted({l.split("obligation=")[1].split()[0].split("#")[0] for l in v})
            print(f"{n}: {'DETECTED' if v else 'MISSED'} violations={len(v)} {' '.join(kinds)[:160]}")
            if not v: missed.append(n)
            open(f, "w").write(orig)
    finally:
        subprocess.run(["git", "-C", "/repo", "worktree", "remove", "--force", wt])
        shutil.rmtree(wt, ignore_errors=True)
    print("missed:", missed)
    sys.exit(1 if missed else 0)
main()
