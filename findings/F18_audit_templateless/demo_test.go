// place at: internal/controller/ledger/zz_f18_demo_test.go
// Finding F18 (C29): audit mode must accept a template-less write on a schema that defines templates.
// Before the fix createTransaction logged the violation and then looked up the template "" and returned
// "failed to find transaction template ``" — the write was rejected in audit mode too.
package ledger

import (
	"context"
	"math/big"
	"testing"

	ledger "github.com/formancehq/ledger/internal"
	"github.com/formancehq/ledger/internal/machine/vm"
	"github.com/stretchr/testify/require"
	"go.uber.org/mock/gomock"
)

func TestF18AuditModeAcceptsTemplateLessWrite(t *testing.T) {
	mc := gomock.NewController(t)
	store := NewMockStore(mc)
	rt := NewMockNumscriptRuntime(mc)
	parser := NewMockNumscriptParser(mc)
	l := NewDefaultController(ledger.Ledger{}, store, parser, NewMockNumscriptParser(mc), NewMockNumscriptParser(mc))
	require.Equal(t, SchemaEnforcementAudit, l.schemaEnforcementMode)

	schema := &ledger.Schema{SchemaData: ledger.SchemaData{
		Chart:        ledger.ChartOfAccounts{"world": {Account: &ledger.ChartAccount{}}, "bank": {Account: &ledger.ChartAccount{}}},
		Transactions: ledger.TransactionTemplates{"TRANSFER": {Script: "irrelevant"}},
	}, Version: "v1"}

	const own = "send [USD 1] (source = @world destination = @bank)"
	parser.EXPECT().Parse(own).Return(rt, nil).AnyTimes()
	rt.EXPECT().Execute(gomock.Any(), store, gomock.Any()).Return(&NumscriptExecutionResult{
		Postings: ledger.Postings{ledger.NewPosting("world", "bank", "USD", big.NewInt(1))},
	}, nil).AnyTimes()
	store.EXPECT().CommitTransaction(gomock.Any(), gomock.Any()).Return(nil).AnyTimes()
	store.EXPECT().UpsertAccounts(gomock.Any(), gomock.Any()).Return(nil).AnyTimes()

	_, err := l.createTransaction(context.Background(), store, schema, Parameters[CreateTransaction]{
		SchemaVersion: "v1",
		Input:         CreateTransaction{RunScript: RunScript{Script: vm.Script{Plain: own}}},
	})
	require.NoError(t, err, "audit mode must accept a write that does not use a template")
}
