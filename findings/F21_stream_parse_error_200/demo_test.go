package bulking

// Demonstration for finding F21 (C38): a bulk stream that cannot be parsed is client-side invalid input and must get a
// 4xx status. Injected with `go test -overlay` into internal/api/bulking.

import (
	"net/http"
	"net/http/httptest"
	"strings"
	"testing"
	"time"
)

func TestFindingF21_UnparsableStreamIsAClientError(t *testing.T) {
	for name, mk := range map[string]func() Handler{
		"text": func() Handler { return NewTextStreamBulkHandler() },
		"json": func() Handler { return NewJSONStreamBulkHandler() },
	} {
		body := "//unknown header\n"
		if name == "json" {
			body = `{"action": 5}` + "\n"
		}
		w := httptest.NewRecorder()
		r := httptest.NewRequest(http.MethodPost, "/", strings.NewReader(body))
		h := mk()
		send, receive, ok := h.GetChannels(w, r)
		if !ok {
			continue // refused up front: fine as long as the status says so
		}
		// drain what the parser produces (nothing valid here), as the bulker would
		timeout := time.After(2 * time.Second)
	drain:
		for {
			select {
			case _, open := <-send:
				if !open {
					break drain
				}
			case <-timeout:
				t.Fatalf("%s: the parser goroutine did not finish", name)
			}
		}
		close(receive)
		h.Terminate(w, r)
		if code := w.Result().StatusCode; code < 400 || code >= 500 {
			t.Errorf("%s stream: unparsable input answered with status %d, body %s", name, code, strings.TrimSpace(w.Body.String()))
		}
	}
}
