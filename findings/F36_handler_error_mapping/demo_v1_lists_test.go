package v1

import (
	"context"
	"database/sql"
	"database/sql/driver"
	"io"
	"net/http"
	"net/http/httptest"
	"sync"
	"testing"

	"github.com/stretchr/testify/require"
	"github.com/uptrace/bun"
	"github.com/uptrace/bun/dialect/pgdialect"
	"go.uber.org/mock/gomock"

	"github.com/formancehq/go-libs/v5/pkg/authn/jwt"

	ledger "github.com/formancehq/ledger/internal"
	ledgercontroller "github.com/formancehq/ledger/internal/controller/ledger"
	systemcontroller "github.com/formancehq/ledger/internal/controller/system"
	ledgerstore "github.com/formancehq/ledger/internal/storage/ledger"
	"github.com/formancehq/ledger/pkg/features"
)

// v1 list endpoints hand the raw query-string values to the filter builder (after/start_time/end_time as strings) and answer every storage ErrInvalidQuery with HandleCommonErrors, i.e. a 500. 'after=5' on logs/transactions is even valid input: the string is refused by TypeNumeric.ValidateValue.
func TestHuntK5V1InvalidFiltersAndCursorsAre500(t *testing.T) {
	router, _ := newHuntK5Router(t, features.DefaultFeatures)
	for _, target := range []string{
		"/xxx/logs?after=5",
		"/xxx/logs?start_time=garbage",
		"/xxx/transactions?after=abc",
		"/xxx/transactions?start_time=garbage",
		"/xxx/transactions?cursor=eyJjb2x1bW4iOiJmb28ifQ",
		"/xxx/logs?cursor=eyJjb2x1bW4iOiJmb28ifQ",
		"/xxx/balances?cursor=eyJjb2x1bW4iOiJmb28ifQ",
	} {
		req := httptest.NewRequest(http.MethodGet, target, nil)
		rec := httptest.NewRecorder()
		router.ServeHTTP(rec, req)
		require.Truef(t, rec.Code >= 400 && rec.Code < 500 || rec.Code == http.StatusOK,
			"GET %s: client-side invalid input answered with %d %s", target, rec.Code, rec.Body.String())
	}
}

type huntK5Ctrl struct{ ledgercontroller.Controller }

func (huntK5Ctrl) IsDatabaseUpToDate(context.Context) (bool, error) { return true, nil }

// newHuntK5Router serves the real router over the real ledger controller and the real
// storage code; only the database/sql driver is a stub (no rows, SQL text recorded).
func newHuntK5Router(t *testing.T, featureSet features.FeatureSet) (http.Handler, *huntK5Recorder) {
	t.Helper()
	rec := &huntK5Recorder{}
	db := bun.NewDB(sql.OpenDB(huntK5Connector{rec: rec}), pgdialect.New())
	t.Cleanup(func() { _ = db.Close() })
	l := ledger.MustNewWithDefault("xxx")
	l.Bucket = "b0"
	l.Features = featureSet
	store := ledgerstore.New(db, nil, l)
	real := ledgercontroller.NewDefaultController(l, systemcontroller.NewDefaultStoreAdapter(store), nil, nil, nil)

	ctrl := gomock.NewController(t)
	backend := NewSystemController(ctrl)
	backend.EXPECT().GetLedger(gomock.Any(), gomock.Any()).MinTimes(0).Return(&l, nil)
	backend.EXPECT().GetLedgerController(gomock.Any(), gomock.Any()).MinTimes(0).Return(huntK5Ctrl{real}, nil)
	return NewRouter(backend, jwt.NewNoAuth(), "develop", false), rec
}

// ---- offline stub database/sql driver: records the SQL text bun sends, returns no rows ----

type huntK5Recorder struct {
	mu      sync.Mutex
	queries []string
}

func (r *huntK5Recorder) all() []string {
	r.mu.Lock()
	defer r.mu.Unlock()
	return append([]string{}, r.queries...)
}

type huntK5Connector struct{ rec *huntK5Recorder }

func (c huntK5Connector) Connect(context.Context) (driver.Conn, error) {
	return &huntK5Conn{rec: c.rec}, nil
}
func (c huntK5Connector) Driver() driver.Driver { return huntK5Driver{} }

type huntK5Driver struct{}

func (huntK5Driver) Open(string) (driver.Conn, error) { return nil, io.ErrUnexpectedEOF }

type huntK5Conn struct{ rec *huntK5Recorder }

func (c *huntK5Conn) Prepare(string) (driver.Stmt, error) { return nil, io.ErrUnexpectedEOF }
func (c *huntK5Conn) Close() error                        { return nil }
func (c *huntK5Conn) Begin() (driver.Tx, error)           { return nil, io.ErrUnexpectedEOF }
func (c *huntK5Conn) QueryContext(_ context.Context, q string, _ []driver.NamedValue) (driver.Rows, error) {
	c.rec.mu.Lock()
	c.rec.queries = append(c.rec.queries, q)
	c.rec.mu.Unlock()
	return huntK5Rows{}, nil
}

type huntK5Rows struct{}

func (huntK5Rows) Columns() []string         { return []string{} }
func (huntK5Rows) Close() error              { return nil }
func (huntK5Rows) Next([]driver.Value) error { return io.EOF }
