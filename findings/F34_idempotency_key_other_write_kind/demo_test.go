package ledger

import (
	"math/big"
	"testing"

	"github.com/stretchr/testify/require"
	"github.com/uptrace/bun"
	"go.uber.org/mock/gomock"

	logging "github.com/formancehq/go-libs/v5/pkg/observe/log"
	"github.com/formancehq/go-libs/v5/pkg/types/pointer"

	ledger "github.com/formancehq/ledger/internal"
)

// An idempotency key already used by a log of ANOTHER write kind, stored without idempotency hash
// (logs written by a previous ledger version, or brought in through the import endpoint, which keeps
// the idempotency key of each log and accepts a missing "idempotencyHash"), is reused on a revert.
// The input is different (another write kind): the property asks for a validation error and no effect.
// fetchLogWithIK skips the hash comparison (empty hash) and does the unchecked assertion
// log.Data.(OUTPUT), which panics.
func TestHuntIKOfAnotherWriteKindWithoutHashPanics(t *testing.T) {
	t.Parallel()

	ctx := logging.TestingContext()
	ctrl := gomock.NewController(t)
	store := NewMockStore(ctrl)

	l := NewDefaultController(
		ledger.Ledger{},
		store,
		NewMockNumscriptParser(ctrl),
		NewMockNumscriptParser(ctrl),
		NewMockNumscriptParser(ctrl),
	)

	store.EXPECT().BeginTX(gomock.Any(), gomock.Any()).Return(store, &bun.Tx{}, nil).AnyTimes()
	store.EXPECT().Rollback(gomock.Any()).Return(nil).AnyTimes()
	store.EXPECT().
		ReadLogWithIdempotencyKey(gomock.Any(), "k1").
		Return(&ledger.Log{
			ID:             pointer.For(uint64(1)),
			Type:           ledger.NewTransactionLogType,
			IdempotencyKey: "k1",
			// no IdempotencyHash: legacy / imported log
			Data: ledger.CreatedTransaction{
				Transaction: ledger.NewTransaction().
					WithPostings(ledger.NewPosting("world", "bank", "USD", big.NewInt(100))).
					WithID(1),
			},
		}, nil).
		AnyTimes()

	var (
		err      error
		panicked any
	)
	func() {
		defer func() {
			panicked = recover()
		}()
		_, _, _, err = l.RevertTransaction(ctx, Parameters[RevertTransaction]{
			IdempotencyKey: "k1",
			Input: RevertTransaction{
				TransactionID: 1,
			},
		})
	}()

	require.Nil(t, panicked, "reusing the idempotency key of a NEW_TRANSACTION log on a revert must not panic")
	require.Error(t, err)
	require.ErrorIs(t, err, ErrInvalidIdempotencyInput{}, "a key reused with another write kind is a validation error")
}
