package ledger

import (
	"context"
	"database/sql"
	"database/sql/driver"
	"errors"
	"io"
	"sync"
	"testing"

	"github.com/stretchr/testify/require"
	"github.com/uptrace/bun"
	"github.com/uptrace/bun/dialect/pgdialect"

	ledger "github.com/formancehq/ledger/internal"
	"github.com/formancehq/ledger/internal/storage/common"
)

// GET /v2/{ledger}/accounts?expand=<anything>: accountsResourceHandler.Expand only
// special-cases "volumes" and "effectiveVolumes"; every other client value builds the
// volumes join anyway and is concatenated, unquoted, as the column alias of the CTE.
// "expand=1" or "expand=a;b c" gives a syntax error in Postgres (500); the text after
// "as " is client-controlled SQL.
func TestHuntK2UnknownAccountExpandReachesSQL(t *testing.T) {
	rec := &huntK2Recorder{}
	db := bun.NewDB(sql.OpenDB(huntK2Connector{rec: rec}), pgdialect.New())
	t.Cleanup(func() { _ = db.Close() })
	l := ledger.MustNewWithDefault("l0")
	l.Bucket = "b0"
	store := &Store{db: db, ledger: l}

	for _, expand := range []string{"1", "x;y z", "volumes from rows group by 1) select 1 --"} {
		rec.mu.Lock()
		rec.queries = nil
		rec.mu.Unlock()

		_, err := store.Accounts().Paginate(context.Background(), common.InitialPaginatedQuery[any]{
			Options: common.ResourceQuery[any]{Expand: []string{expand}},
		})
		if err != nil {
			// an unknown expand refused as an invalid query (API: 400) is correct
			require.True(t, errors.Is(err, common.ErrInvalidQuery{}), "unexpected error class: %v", err)
			continue
		}
		// ignoring it (as transactions do) is acceptable too; pasting it into the SQL is not
		for _, q := range rec.all() {
			require.NotContains(t, q, "expand0", "unknown expand %q produced a join; client text is used as a SQL alias:\n%s", expand, q)
		}
	}
}

// ---- offline stub database/sql driver: records the SQL text bun sends, returns no rows ----

type huntK2Recorder struct {
	mu      sync.Mutex
	queries []string
}

func (r *huntK2Recorder) all() []string {
	r.mu.Lock()
	defer r.mu.Unlock()
	return append([]string{}, r.queries...)
}

type huntK2Connector struct{ rec *huntK2Recorder }

func (c huntK2Connector) Connect(context.Context) (driver.Conn, error) {
	return &huntK2Conn{rec: c.rec}, nil
}
func (c huntK2Connector) Driver() driver.Driver { return huntK2Driver{} }

type huntK2Driver struct{}

func (huntK2Driver) Open(string) (driver.Conn, error) { return nil, io.ErrUnexpectedEOF }

type huntK2Conn struct{ rec *huntK2Recorder }

func (c *huntK2Conn) Prepare(string) (driver.Stmt, error) { return nil, io.ErrUnexpectedEOF }
func (c *huntK2Conn) Close() error                        { return nil }
func (c *huntK2Conn) Begin() (driver.Tx, error)           { return nil, io.ErrUnexpectedEOF }
func (c *huntK2Conn) QueryContext(_ context.Context, q string, _ []driver.NamedValue) (driver.Rows, error) {
	c.rec.mu.Lock()
	c.rec.queries = append(c.rec.queries, q)
	c.rec.mu.Unlock()
	return huntK2Rows{}, nil
}

type huntK2Rows struct{}

func (huntK2Rows) Columns() []string         { return []string{} }
func (huntK2Rows) Close() error              { return nil }
func (huntK2Rows) Next([]driver.Value) error { return io.EOF }
