package machine

// Demonstration for finding F28 (C24): a portion written as a fraction with a leading zero was parsed by
// big.Rat.SetString with the zero as an OCTAL prefix: "010/100" became 8/100 and "1/010" became 1/8, so
// `{ 010/100 to @a, remaining to @b }` of 1000 gave 80 to @a. Injected with `go test -overlay` into internal/machine.

import (
	"math/big"
	"testing"
)

func TestFindingF28_FractionPortionsAreDecimal(t *testing.T) {
	for in, want := range map[string]*big.Rat{
		"010/100":   big.NewRat(10, 100),
		"1/010":     big.NewRat(1, 10),
		"0010/0100": big.NewRat(10, 100),
		"08/100":    big.NewRat(8, 100),
		"1/2":       big.NewRat(1, 2),
	} {
		p, err := ParsePortionSpecific(in)
		if err != nil {
			t.Errorf("%q: unexpected error %v", in, err)
			continue
		}
		if p.Specific.Cmp(want) != 0 {
			t.Errorf("%q parsed as %s, want %s", in, p.Specific, want)
		}
	}
	if _, err := ParsePortionSpecific("1/0"); err == nil {
		t.Errorf("1/0 must be refused")
	}
	a, err := ParsePortionSpecific("010/100")
	if err != nil {
		t.Fatal(err)
	}
	allot, err := NewAllotment([]Portion{*a, {Remaining: true}})
	if err != nil {
		t.Fatal(err)
	}
	parts := allot.Allocate(NewMonetaryInt(1000))
	if parts[0].String() != "100" || parts[1].String() != "900" {
		t.Errorf("{010/100, remaining} of 1000 = %v, want [100 900]", parts)
	}
}
