package common

// Demonstration for finding F29 (C38, C21): GET /v2/{ledger}/transactions?sort=reverted_at (the transaction schema marks
// reverted_at as a paginated date column) panicked in findPaginationField as soon as the page held a transaction that was
// not reverted (nil *time.Time dereferenced). The assumed contract of findPaginationField said "never nil"; it was wrong.
// Injected with `go test -overlay` into internal/storage/common.

import (
	"errors"
	"testing"

	"github.com/stretchr/testify/require"

	"github.com/formancehq/go-libs/v5/pkg/storage/bun/paginate"
	"github.com/formancehq/go-libs/v5/pkg/types/pointer"
	"github.com/formancehq/go-libs/v5/pkg/types/time"

	ledger "github.com/formancehq/ledger/internal"
	"github.com/formancehq/ledger/internal/queries"
)

func TestFindingF29_SortOnANullableColumnDoesNotPanic(t *testing.T) {
	p := newColumnPaginator[ledger.Transaction, any](ColumnPaginatedQuery[any]{
		InitialPaginatedQuery: InitialPaginatedQuery[any]{
			Column:   "reverted_at",
			Order:    pointer.For(paginate.Order(paginate.OrderAsc)),
			PageSize: 15,
		},
	}, "reverted_at", queries.NewTypeDate())

	now := time.Now()
	reverted := ledger.Transaction{}
	reverted.RevertedAt = &now

	// a page of reverted transactions still works
	c, err := p.BuildCursor([]ledger.Transaction{reverted})
	require.NoError(t, err)
	require.Len(t, c.Data, 1)

	// a transaction that was not reverted has no value in the sort column
	require.NotPanics(t, func() {
		_, err = p.BuildCursor([]ledger.Transaction{reverted, {}})
	})
	require.Error(t, err)
	require.True(t, errors.Is(err, ErrInvalidQuery{}), "refused as an invalid query (400), got %v", err)
}
