package ledger_test

// Demonstration for finding F27 (C38): filters that the storage handlers refuse must be refused with the invalid-query
// error the API maps to a 400 (storage/common.ErrInvalidQuery). A partial address inside `$in` came back as
// storage/ledger.ErrInvalidQuery (a different type of the same name, mapped by nobody), and malformed keys such as
// `metadata[` / `balance[` as plain fmt errors: both were answered with a 500. Injected with `go test -overlay` into
// internal/storage/ledger.

import (
	"context"
	"database/sql"
	"database/sql/driver"
	"errors"
	"testing"

	"github.com/stretchr/testify/require"
	"github.com/uptrace/bun"
	"github.com/uptrace/bun/dialect/pgdialect"

	"github.com/formancehq/go-libs/v5/pkg/query"

	ledger "github.com/formancehq/ledger/internal"
	storagecommon "github.com/formancehq/ledger/internal/storage/common"
	ledgerstore "github.com/formancehq/ledger/internal/storage/ledger"
)

type f27Driver struct{}

func (f27Driver) Open(string) (driver.Conn, error) { return nil, errors.New("offline") }

func init() { sql.Register("f27-offline", f27Driver{}) }

func TestFindingF27_RefusedFiltersAreInvalidQueries(t *testing.T) {
	sqlDB, err := sql.Open("f27-offline", "")
	require.NoError(t, err)
	store := ledgerstore.New(bun.NewDB(sqlDB, pgdialect.New()), nil, ledger.Ledger{Name: "ledger0"})

	for _, c := range []struct {
		name, filter string
		run          func(b query.Builder) error
	}{
		{"accounts: partial address in $in", `{"$in": {"address": ["users:"]}}`, func(b query.Builder) error {
			_, err := store.Accounts().Count(context.Background(), storagecommon.ResourceQuery[any]{Builder: b})
			return err
		}},
		{"transactions: partial address in $in", `{"$in": {"account": ["users:"]}}`, func(b query.Builder) error {
			_, err := store.Transactions().Count(context.Background(), storagecommon.ResourceQuery[any]{Builder: b})
			return err
		}},
		{"transactions: malformed metadata key", `{"$match": {"metadata[": "x"}}`, func(b query.Builder) error {
			_, err := store.Transactions().Count(context.Background(), storagecommon.ResourceQuery[any]{Builder: b})
			return err
		}},
		{"volumes: malformed balance key", `{"$lt": {"balance[": 5}}`, func(b query.Builder) error {
			_, err := store.Volumes().Count(context.Background(), storagecommon.ResourceQuery[ledger.GetVolumesOptions]{Builder: b})
			return err
		}},
	} {
		t.Run(c.name, func(t *testing.T) {
			b, err := query.ParseJSON(c.filter)
			require.NoError(t, err)
			err = c.run(b)
			require.Error(t, err)
			require.Truef(t, errors.Is(err, storagecommon.ErrInvalidQuery{}), "must be an invalid-query error (400), got %T: %v", errors.Unwrap(err), err)
		})
	}
}
