package bulking

// Demonstration for finding F19 (C38): malformed client input on the bulk script stream must give an error, not a panic.
// Injected with `go test -overlay` into internal/api/bulking.

import (
	"bufio"
	"strings"
	"testing"
)

func parseNoPanic(t *testing.T, in string) (err error) {
	t.Helper()
	defer func() {
		if r := recover(); r != nil {
			t.Errorf("ParseTextStream panicked on %q: %v", in, r)
		}
	}()
	_, err = ParseTextStream(bufio.NewScanner(strings.NewReader(in)))
	return err
}

func TestFindingF19_TextStreamMalformedInput(t *testing.T) {
	// a header option without '=': parts2[1] is out of range
	if err := parseNoPanic(t, "//script ik\nsend [USD 1] (source=@world destination=@a)\n//end\n"); err == nil {
		t.Errorf("header option without value accepted")
	}
	// an empty script body: plain[:len(plain)-1] with len(plain) == 0
	parseNoPanic(t, "//script\n//end\n")
	parseNoPanic(t, "//script")
}
