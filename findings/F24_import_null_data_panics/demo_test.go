package v2

// Demonstration for finding F24 (C38): a log whose "data" is JSON null on POST /{ledger}/logs/import is client-side invalid input and
// must get a 4xx answer, not a 500. Injected with `go test -overlay` into internal/api/v2.

import (
	"context"
	"net/http"
	"net/http/httptest"
	"strings"
	"testing"

	"go.uber.org/mock/gomock"

	"github.com/formancehq/go-libs/v5/pkg/authn/jwt"

	ledger "github.com/formancehq/ledger/internal"
)

func TestFindingF24_ImportNullDataIsAClientError(t *testing.T) {
	for _, body := range []string{`{"type":"NEW_TRANSACTION","data":null}`, `{"type":"SET_METADATA","data":null}`, `{"type":"REVERTED_TRANSACTION","data":null,"id":1}`, `{"type":"NEW_TRANSACTION"}`} {
		systemController, ledgerController := newTestingSystemController(t, true)
		ledgerController.EXPECT().Import(gomock.Any(), gomock.Any()).
			DoAndReturn(func(ctx context.Context, stream chan ledger.Log) error {
				select {
				case <-ctx.Done():
					return ctx.Err()
				case _, ok := <-stream:
					_ = ok
					return nil
				}
			}).AnyTimes()
		router := NewRouter(systemController, jwt.NewNoAuth(), "develop")
		req := httptest.NewRequest(http.MethodPost, "/xxx/logs/import", strings.NewReader(body))
		rec := httptest.NewRecorder()
		router.ServeHTTP(rec, req)
		if rec.Code >= 500 || rec.Code < 400 {
			t.Errorf("body %q: status %d, want a 4xx client error", body, rec.Code)
		}
	}
}
