package bulking

// Demonstration for finding F7 (C36): a monetary variable given as a JSON number must reach the machine without loss.
// Injected with `go test -overlay` into internal/api/bulking.

import (
	"encoding/json"
	"testing"
)

func TestFindingF7_JSONNumberAmountsAreExact(t *testing.T) {
	for _, amount := range []string{"9007199254740993", "9223372036854775809", "18446744073709551617", "1000000000000000000000000000001", "42"} {
		var req TransactionRequest
		in := `{"script":{"plain":"vars { monetary $m }","vars":{"m":{"asset":"USD/2","amount":` + amount + `},"n":` + amount + `}}}`
		if err := json.Unmarshal([]byte(in), &req); err != nil {
			t.Fatal(err)
		}
		got := req.Script.ToCore().Vars
		if got["m"] != "USD/2 "+amount {
			t.Errorf("monetary variable: JSON amount %s reached the machine as %q", amount, got["m"])
		}
		if got["n"] != amount {
			t.Errorf("number variable: JSON number %s reached the machine as %q", amount, got["n"])
		}
	}
}
