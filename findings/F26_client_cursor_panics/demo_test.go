package ledger

// Demonstration for finding F26 (C38): a `cursor` query parameter is client input, and a query decoded from it was
// not validated the way an initial query is. Injected with `go test -overlay` into internal/storage/ledger.
//   - a column cursor on a column that has no pagination id ({"column":"address",...}) reached the
//     panic("invalid paginationID, type string not handled") of findPaginationField as soon as one row came back;
//   - a page size of 2^64-1 made int(pageSize)+1 wrap to 0 (no LIMIT) and, on an empty page, BuildCursor slice
//     ret[:len(ret)-1] (slice bounds out of range);
//   - an unknown column ({"column":"nope"} / sort=nope) was answered with a plain error, i.e. a 500.

import (
	"context"
	"database/sql"
	"database/sql/driver"
	"encoding/base64"
	"errors"
	"io"
	"testing"

	"github.com/stretchr/testify/require"
	"github.com/uptrace/bun"
	"github.com/uptrace/bun/dialect/pgdialect"

	ledger "github.com/formancehq/ledger/internal"
	"github.com/formancehq/ledger/internal/storage/common"
)

func TestFindingF26_ClientCursorsAreValidated(t *testing.T) {
	for _, c := range []struct {
		name   string
		cursor string
		rows   int
	}{
		{"column cursor on a string column, one row", `{"column":"address","pageSize":15}`, 1},
		{"column cursor on metadata, one row", `{"column":"metadata","pageSize":15}`, 1},
		{"column cursor, page size 2^64-1, empty page", `{"column":"first_usage","pageSize":18446744073709551615}`, 0},
		{"offset cursor, page size 2^64-1, empty page", `{"offset":0,"column":"address","pageSize":18446744073709551615}`, 0},
		{"column cursor on an unknown column", `{"column":"nope","pageSize":15}`, 0},
		{"offset cursor on an unknown column", `{"offset":0,"column":"nope","pageSize":15}`, 0},
	} {
		t.Run(c.name, func(t *testing.T) {
			store := &Store{
				db:     bun.NewDB(sql.OpenDB(f26Connector{rows: c.rows}), pgdialect.New()),
				ledger: ledger.Ledger{Name: "ledger0"},
			}
			q, err := common.UnmarshalCursor[any](base64.RawURLEncoding.EncodeToString([]byte(c.cursor)))
			require.NoError(t, err, "the cursor is accepted by the decoder")
			var paginateErr error
			require.NotPanics(t, func() {
				_, paginateErr = store.Accounts().Paginate(context.Background(), q)
			})
			require.Error(t, paginateErr, "such a cursor is refused")
			require.Truef(t, errors.Is(paginateErr, common.ErrInvalidQuery{}) || errors.Is(paginateErr, common.ErrNotPaginatedField{}),
				"refused as a client error, got %v", paginateErr)
		})
	}
}

type f26Connector struct{ rows int }

func (c f26Connector) Connect(context.Context) (driver.Conn, error) { return f26Conn(c), nil }
func (c f26Connector) Driver() driver.Driver                        { return f26Driver(c) }

type f26Driver struct{ rows int }

func (d f26Driver) Open(string) (driver.Conn, error) { return f26Conn(d), nil }

type f26Conn struct{ rows int }

func (f26Conn) Prepare(string) (driver.Stmt, error) { return nil, errors.New("not supported") }
func (f26Conn) Close() error                        { return nil }
func (f26Conn) Begin() (driver.Tx, error)           { return nil, errors.New("not supported") }
func (c f26Conn) QueryContext(context.Context, string, []driver.NamedValue) (driver.Rows, error) {
	return &f26Rows{left: c.rows}, nil
}

type f26Rows struct{ left int }

func (*f26Rows) Columns() []string { return []string{"address"} }
func (*f26Rows) Close() error      { return nil }
func (r *f26Rows) Next(dest []driver.Value) error {
	if r.left == 0 {
		return io.EOF
	}
	r.left--
	dest[0] = "world"
	return nil
}
