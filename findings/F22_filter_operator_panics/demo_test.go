// place at: internal/storage/ledger/zz_f22_demo_test.go
package ledger_test

import (
	"context"
	"database/sql"
	"database/sql/driver"
	"errors"
	"fmt"
	"testing"

	"github.com/stretchr/testify/require"
	"github.com/uptrace/bun"
	"github.com/uptrace/bun/dialect/pgdialect"

	"github.com/formancehq/go-libs/v5/pkg/query"

	ledger "github.com/formancehq/ledger/internal"
	storagecommon "github.com/formancehq/ledger/internal/storage/common"
	ledgerstore "github.com/formancehq/ledger/internal/storage/ledger"
)

// F22 (C38): a filter operator that the entity schema admits for a property ($in on a string field, $exists on a map
// field) passes ResourceRepository.validateFilters and then reaches common.ConvertOperatorToSQL, which panics
// ("unreachable") on anything but the six comparison operators. The request is client input; the answer must be a
// refusal (invalid query) or a query sent to the database, never a panic.

type offlineDriver struct{}

var errOffline = errors.New("offline: the query was sent to the database")

func (offlineDriver) Open(string) (driver.Conn, error) { return nil, errOffline }

func init() { sql.Register("f22-offline", offlineDriver{}) }

func TestF22FilterOperatorsAdmittedBySchemaDoNotPanic(t *testing.T) {
	sqlDB, err := sql.Open("f22-offline", "")
	require.NoError(t, err)
	store := ledgerstore.New(bun.NewDB(sqlDB, pgdialect.New()), nil, ledger.Ledger{Name: "ledger0"})

	cases := []struct {
		name   string
		filter string
		run    func(builder query.Builder) error
	}{
		{"logs/$in type", `{"$in": {"type": ["NEW_TRANSACTION", "SET_METADATA"]}}`, func(b query.Builder) error {
			_, err := store.Logs().Paginate(context.Background(), storagecommon.InitialPaginatedQuery[any]{
				Options: storagecommon.ResourceQuery[any]{Builder: b},
			})
			return err
		}},
		{"accounts/$exists balance", `{"$exists": {"balance": 12}}`, func(b query.Builder) error {
			_, err := store.Accounts().Count(context.Background(), storagecommon.ResourceQuery[any]{Builder: b})
			return err
		}},
		{"volumes/$exists balance", `{"$exists": {"balance": 12}}`, func(b query.Builder) error {
			_, err := store.Volumes().Count(context.Background(), storagecommon.ResourceQuery[ledger.GetVolumesOptions]{Builder: b})
			return err
		}},
		{"accounts/$in metadata[balance[x]]", `{"$in": {"metadata[balance[x]]": ["a"]}}`, func(b query.Builder) error {
			_, err := store.Accounts().Count(context.Background(), storagecommon.ResourceQuery[any]{Builder: b})
			return err
		}},
		{"volumes/$in metadata[balance[x]]", `{"$in": {"metadata[balance[x]]": ["a"]}}`, func(b query.Builder) error {
			_, err := store.Volumes().Count(context.Background(), storagecommon.ResourceQuery[ledger.GetVolumesOptions]{Builder: b})
			return err
		}},
		{"schemas/$in version", `{"$in": {"version": ["v1", "v2"]}}`, func(b query.Builder) error {
			_, err := store.Schemas().Count(context.Background(), storagecommon.ResourceQuery[any]{Builder: b})
			return err
		}},
	}
	for _, c := range cases {
		t.Run(c.name, func(t *testing.T) {
			builder, err := query.ParseJSON(c.filter)
			require.NoError(t, err)
			var runErr error
			require.NotPanics(t, func() { runErr = c.run(builder) }, "filter %s", c.filter)
			require.Error(t, runErr)
			// either refused as an invalid query, or accepted and sent to the (offline) database
			require.Truef(t, errors.Is(runErr, storagecommon.ErrInvalidQuery{}) || errors.Is(runErr, errOffline),
				"unexpected error %v", fmt.Sprint(runErr))
		})
	}
}
