// place at: internal/storage/system/zz_f22_demo_test.go
package system_test

import (
	"context"
	"database/sql"
	"database/sql/driver"
	"errors"
	"testing"

	"github.com/stretchr/testify/require"
	"github.com/uptrace/bun"
	"github.com/uptrace/bun/dialect/pgdialect"

	"github.com/formancehq/go-libs/v5/pkg/query"

	storagecommon "github.com/formancehq/ledger/internal/storage/common"
	systemstore "github.com/formancehq/ledger/internal/storage/system"
)

// F22 (C38), ledgers listing: `$in` is admitted by the schema for the string field `name` and reached
// common.ConvertOperatorToSQL's panic.

type offlineDriver struct{}

var errOffline = errors.New("offline: the query was sent to the database")

func (offlineDriver) Open(string) (driver.Conn, error) { return nil, errOffline }

func init() { sql.Register("f22-offline-system", offlineDriver{}) }

func TestF22LedgersNameInDoesNotPanic(t *testing.T) {
	sqlDB, err := sql.Open("f22-offline-system", "")
	require.NoError(t, err)
	store := systemstore.New(bun.NewDB(sqlDB, pgdialect.New()))

	builder, err := query.ParseJSON(`{"$in": {"name": ["a", "b"]}}`)
	require.NoError(t, err)
	var runErr error
	require.NotPanics(t, func() {
		_, runErr = store.Ledgers().Paginate(context.Background(), storagecommon.InitialPaginatedQuery[systemstore.ListLedgersQueryPayload]{
			Options: storagecommon.ResourceQuery[systemstore.ListLedgersQueryPayload]{Builder: builder},
		})
	})
	require.Error(t, runErr)
	require.True(t, errors.Is(runErr, storagecommon.ErrInvalidQuery{}) || errors.Is(runErr, errOffline), "unexpected error %v", runErr)
}
