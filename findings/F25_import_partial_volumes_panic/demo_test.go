package ledger

// Demonstration for finding F25 (C38): a NEW_TRANSACTION (or REVERTED_TRANSACTION) log in an import stream may carry
// postCommitVolumes that do not cover its own postings. DefaultController.importLog recomputed the volumes on a COPY of
// the payload and handed the log, still carrying the client's volumes, to Store.InsertLog, which renders log.Data with
// json.Marshal: Transaction.MarshalJSON -> PostCommitVolumes.SubtractPostings -> nil *big.Int. Import runs in a goroutine
// outside the recover middleware, so the process went down. Injected with `go test -overlay` into internal/controller/ledger.

import (
	"context"
	"encoding/json"
	"testing"

	"github.com/stretchr/testify/require"
	"go.uber.org/mock/gomock"

	ledger "github.com/formancehq/ledger/internal"
)

func TestFindingF25_ImportedVolumesAreNotTrusted(t *testing.T) {
	for name, line := range map[string]string{
		"new transaction": `{"id":0,"type":"NEW_TRANSACTION","date":"2024-01-01T00:00:00Z","data":{"transaction":{"id":1,"postings":[{"source":"world","destination":"a","asset":"USD","amount":10}],"metadata":{},"timestamp":"2024-01-01T00:00:00Z","postCommitVolumes":{"a":{"USD":{"input":10,"output":0}}}},"accountMetadata":{}}}`,
		"new transaction, effective volumes": `{"id":0,"type":"NEW_TRANSACTION","date":"2024-01-01T00:00:00Z","data":{"transaction":{"id":1,"postings":[{"source":"world","destination":"a","asset":"USD","amount":10}],"metadata":{},"timestamp":"2024-01-01T00:00:00Z","postCommitEffectiveVolumes":{"a":{"USD":{"input":10,"output":0}}}},"accountMetadata":{}}}`,
		"reverted transaction": `{"id":0,"type":"REVERTED_TRANSACTION","date":"2024-01-01T00:00:00Z","data":{"revertedTransaction":{"id":1,"revertedAt":"2024-01-02T00:00:00Z","postings":[{"source":"world","destination":"a","asset":"USD","amount":10}],"metadata":{},"timestamp":"2024-01-01T00:00:00Z","postCommitVolumes":{"a":{"USD":{"input":10,"output":0}}}},"transaction":{"id":2,"postings":[{"source":"a","destination":"world","asset":"USD","amount":10}],"metadata":{},"timestamp":"2024-01-02T00:00:00Z","postCommitVolumes":{"world":{"USD":{"input":10,"output":10}}}}}}`,
	} {
		t.Run(name, func(t *testing.T) {
			var log ledger.Log
			require.NoError(t, json.Unmarshal([]byte(line), &log))

			ctrl := gomock.NewController(t)
			store := NewMockStore(ctrl)
			store.EXPECT().CommitTransaction(gomock.Any(), gomock.Any()).
				DoAndReturn(func(_ context.Context, tx *ledger.Transaction) error {
					// what Store.CommitTransaction does: volumes of every (account, asset) the postings touch
					pcv := ledger.PostCommitVolumes{}
					for _, p := range tx.Postings {
						for _, acc := range []string{p.Source, p.Destination} {
							if pcv[acc] == nil {
								pcv[acc] = ledger.VolumesByAssets{}
							}
							if _, ok := pcv[acc][p.Asset]; !ok {
								pcv[acc][p.Asset] = ledger.NewEmptyVolumes()
							}
						}
						pcv.AddInput(p.Destination, p.Asset, p.Amount)
						pcv.AddOutput(p.Source, p.Asset, p.Amount)
					}
					tx.PostCommitVolumes = pcv
					return nil
				}).AnyTimes()
			store.EXPECT().RevertTransaction(gomock.Any(), gomock.Any(), gomock.Any()).
				Return(&ledger.Transaction{}, true, nil).AnyTimes()
			store.EXPECT().UpsertAccounts(gomock.Any(), gomock.Any()).Return(nil).AnyTimes()
			store.EXPECT().InsertLog(gomock.Any(), gomock.Any()).
				DoAndReturn(func(_ context.Context, l *ledger.Log) error {
					// what Store.InsertLog does first with the log it is given
					_, err := json.Marshal(l.Data)
					return err
				}).AnyTimes()

			c := NewDefaultController(ledger.MustNewWithDefault("l"), store, nil, nil, nil)
			require.NotPanics(t, func() {
				_ = c.importLog(context.Background(), store, log)
			})
		})
	}
}
