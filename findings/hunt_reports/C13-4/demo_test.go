package ledger

import (
	"context"
	"math/big"
	"testing"

	"github.com/stretchr/testify/require"
	"go.uber.org/mock/gomock"

	logging "github.com/formancehq/go-libs/v5/pkg/observe/log"
	"github.com/formancehq/go-libs/v5/pkg/types/metadata"
	"github.com/formancehq/go-libs/v5/pkg/types/pointer"

	ledger "github.com/formancehq/ledger/internal"
)

// countingListener counts the events handed to the publisher.
type huntCountingListener struct {
	events []string
}

func (l *huntCountingListener) CommittedTransactions(context.Context, string, ledger.Transaction, ledger.AccountMetadata) {
	l.events = append(l.events, "COMMITTED_TRANSACTIONS")
}
func (l *huntCountingListener) SavedMetadata(context.Context, string, string, string, metadata.Metadata) {
	l.events = append(l.events, "SAVED_METADATA")
}
func (l *huntCountingListener) RevertedTransaction(context.Context, string, ledger.Transaction, ledger.Transaction) {
	l.events = append(l.events, "REVERTED_TRANSACTION")
}
func (l *huntCountingListener) DeletedMetadata(context.Context, string, string, any, string) {
	l.events = append(l.events, "DELETED_METADATA")
}
func (l *huntCountingListener) InsertedSchema(context.Context, string, ledger.Schema) {
	l.events = append(l.events, "INSERTED_SCHEMA")
}

var _ Listener = (*huntCountingListener)(nil)

// A write repeated with the same idempotency key and the same input is answered by the underlying controller
// with the original log and idempotencyHit=true: nothing is applied. ControllerWithEvents (which wraps every
// ledger controller when a publisher is configured, see internal/controller/system/controller.go) ignores the flag
// and publishes the event again: each replay of the request gives the consumers of the bus one more
// COMMITTED_TRANSACTIONS / REVERTED_TRANSACTION / SAVED_METADATA ... event, i.e. the write has an effect more than once.
func TestHuntIdempotencyHitPublishesTheEventAgain(t *testing.T) {
	t.Parallel()

	ctx := logging.TestingContext()
	ctrl := gomock.NewController(t)
	underlying := NewMockController(ctrl)
	listener := &huntCountingListener{}

	l := NewControllerWithEvents(ledger.Ledger{Name: "foo"}, underlying, listener)

	tx := ledger.NewTransaction().
		WithPostings(ledger.NewPosting("world", "bank", "USD", big.NewInt(100))).
		WithID(1)
	createdLog := ledger.NewLog(ledger.CreatedTransaction{Transaction: tx}).WithIdempotencyKey("k-create")
	createdLog.ID = pointer.For(uint64(1))

	// replay of a creation: idempotency hit
	underlying.EXPECT().
		CreateTransaction(gomock.Any(), gomock.Any()).
		Return(&createdLog, &ledger.CreatedTransaction{Transaction: tx}, true, nil)

	_, _, hit, err := l.CreateTransaction(ctx, Parameters[CreateTransaction]{IdempotencyKey: "k-create"})
	require.NoError(t, err)
	require.True(t, hit)

	// replay of a revert: idempotency hit
	reverted := ledger.RevertedTransaction{RevertedTransaction: tx, RevertTransaction: tx.Reverse().WithID(2)}
	revertedLog := ledger.NewLog(reverted).WithIdempotencyKey("k-revert")
	revertedLog.ID = pointer.For(uint64(2))
	underlying.EXPECT().
		RevertTransaction(gomock.Any(), gomock.Any()).
		Return(&revertedLog, &reverted, true, nil)

	_, _, hit, err = l.RevertTransaction(ctx, Parameters[RevertTransaction]{
		IdempotencyKey: "k-revert",
		Input:          RevertTransaction{TransactionID: 1},
	})
	require.NoError(t, err)
	require.True(t, hit)

	// replay of a metadata update: idempotency hit
	savedLog := ledger.NewLog(ledger.SavedMetadata{
		TargetType: ledger.MetaTargetTypeAccount,
		TargetID:   "bank",
		Metadata:   metadata.Metadata{"a": "b"},
	}).WithIdempotencyKey("k-meta")
	savedLog.ID = pointer.For(uint64(3))
	underlying.EXPECT().
		SaveAccountMetadata(gomock.Any(), gomock.Any()).
		Return(&savedLog, true, nil)

	_, hit, err = l.SaveAccountMetadata(ctx, Parameters[SaveAccountMetadata]{
		IdempotencyKey: "k-meta",
		Input:          SaveAccountMetadata{Address: "bank", Metadata: metadata.Metadata{"a": "b"}},
	})
	require.NoError(t, err)
	require.True(t, hit)

	require.Empty(t, listener.events, "nothing was applied by these three replays (idempotency hits), no event must be published again")
}
