package v1

import (
	"net/http"
	"net/http/httptest"
	"testing"

	"github.com/stretchr/testify/require"

	"github.com/formancehq/go-libs/v5/pkg/authn/jwt"
)

// HEAD /{ledger}/transactions?pit=<not a date>: countTransactions returns without
// writing anything when getResourceQuery fails, so the bad date is answered with
// 200 OK, an empty body and no Count header instead of a 400.
func TestHuntK6V1CountTransactionsInvalidPitIsNot4xx(t *testing.T) {
	systemController, _ := newTestingSystemController(t, true)
	router := NewRouter(systemController, jwt.NewNoAuth(), "develop", false)

	for _, target := range []string{"/xxx/transactions?pit=garbage", "/xxx/transactions?oot=2024-13-45"} {
		req := httptest.NewRequest(http.MethodHead, target, nil)
		rec := httptest.NewRecorder()
		router.ServeHTTP(rec, req)

		require.Equalf(t, http.StatusBadRequest, rec.Code,
			"HEAD %s: invalid date answered with %d (Count header %q)", target, rec.Code, rec.Header().Get("Count"))
	}
}
