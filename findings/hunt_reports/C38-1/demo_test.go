package ledger

import (
	"context"
	"database/sql"
	"database/sql/driver"
	"errors"
	"io"
	"strings"
	"sync"
	"testing"

	"github.com/stretchr/testify/require"
	"github.com/uptrace/bun"
	"github.com/uptrace/bun/dialect/pgdialect"

	"github.com/formancehq/go-libs/v5/pkg/query"

	ledger "github.com/formancehq/ledger/internal"
	"github.com/formancehq/ledger/internal/storage/common"
)

// An address filter value is pasted into the WHERE text (filterAccountAddress /
// filterAccountAddressOnTransactions). When another filter of the same query carries
// bound arguments, bun treats a '?' of the address as a placeholder: the argument of
// the OTHER filter is spliced in the middle of the address literal, closing it.
// Result: broken SQL (500) or attacker-chosen SQL (injection), instead of a 400 or a
// query that simply matches the literal address.
func huntK1Run(t *testing.T, resource string, filter string) (string, error) {
	t.Helper()
	rec := &huntK1Recorder{}
	db := bun.NewDB(sql.OpenDB(huntK1Connector{rec: rec}), pgdialect.New())
	t.Cleanup(func() { _ = db.Close() })
	l := ledger.MustNewWithDefault("l0")
	l.Bucket = "b0"
	store := &Store{db: db, ledger: l}

	qb, err := query.ParseJSON(filter)
	require.NoError(t, err)

	switch resource {
	case "accounts":
		_, err = store.Accounts().Paginate(context.Background(), common.InitialPaginatedQuery[any]{
			Options: common.ResourceQuery[any]{Builder: qb},
		})
	case "transactions":
		_, err = store.Transactions().Paginate(context.Background(), common.InitialPaginatedQuery[any]{
			Options: common.ResourceQuery[any]{Builder: qb},
		})
	}
	if err != nil {
		return "", err
	}
	queries := rec.all()
	require.Len(t, queries, 1)
	return queries[0], nil
}

func TestHuntK1QuestionMarkInAddressFilterCorruptsSQL(t *testing.T) {
	// POST /v2/{ledger}/accounts with this body (or ?query=...)
	sqlText, err := huntK1Run(t, "accounts", `{"$and":[{"$match":{"address":"a?"}},{"$match":{"metadata[k]":"v"}}]}`)
	if err != nil {
		// refusing the address is a correct answer too
		require.True(t, errors.Is(err, common.ErrInvalidQuery{}), "unexpected error class: %v", err)
		return
	}
	// observed: WHERE ((address = 'a'{"k":"v"}'') and (metadata @> ?))
	require.Contains(t, sqlText, `metadata @> '{"k":"v"}'`, "the metadata argument was not bound to the metadata filter:\n%s", sqlText)
	require.NotContains(t, sqlText, `'a'{"k":"v"}''`, "the metadata argument was spliced into the address literal:\n%s", sqlText)
}

func TestHuntK1QuestionMarkInAddressFilterInjectsSQL(t *testing.T) {
	// The value of the second filter is client-chosen text; once spliced after the
	// closing quote of the address literal it is read by Postgres as SQL.
	payload := `) or (1=1)) --`
	sqlText, err := huntK1Run(t, "accounts", `{"$and":[{"$match":{"address":"a?"}},{"$match":{"metadata":"`+payload+`"}}]}`)
	if err != nil {
		require.True(t, errors.Is(err, common.ErrInvalidQuery{}), "unexpected error class: %v", err)
		return
	}
	// observed: WHERE ((address = 'a') or (1=1)) --'') and (metadata -> ? is not null)) ...
	require.False(t, strings.Contains(sqlText, `address = 'a') or (1=1)) --`), "client text is executed as SQL:\n%s", sqlText)
}

func TestHuntK1QuestionMarkInTransactionAccountFilter(t *testing.T) {
	sqlText, err := huntK1Run(t, "transactions", `{"$and":[{"$match":{"account":"a?"}},{"$match":{"reference":"r"}}]}`)
	if err != nil {
		require.True(t, errors.Is(err, common.ErrInvalidQuery{}), "unexpected error class: %v", err)
		return
	}
	require.Contains(t, sqlText, `reference = 'r'`, "the reference argument was not bound to the reference filter:\n%s", sqlText)
}

// ---- offline stub database/sql driver: records the SQL text bun sends, returns no rows ----

type huntK1Recorder struct {
	mu      sync.Mutex
	queries []string
}

func (r *huntK1Recorder) all() []string {
	r.mu.Lock()
	defer r.mu.Unlock()
	return append([]string{}, r.queries...)
}

type huntK1Connector struct{ rec *huntK1Recorder }

func (c huntK1Connector) Connect(context.Context) (driver.Conn, error) {
	return &huntK1Conn{rec: c.rec}, nil
}
func (c huntK1Connector) Driver() driver.Driver { return huntK1Driver{} }

type huntK1Driver struct{}

func (huntK1Driver) Open(string) (driver.Conn, error) { return nil, io.ErrUnexpectedEOF }

type huntK1Conn struct{ rec *huntK1Recorder }

func (c *huntK1Conn) Prepare(string) (driver.Stmt, error) { return nil, io.ErrUnexpectedEOF }
func (c *huntK1Conn) Close() error                        { return nil }
func (c *huntK1Conn) Begin() (driver.Tx, error)           { return nil, io.ErrUnexpectedEOF }
func (c *huntK1Conn) QueryContext(_ context.Context, q string, _ []driver.NamedValue) (driver.Rows, error) {
	c.rec.mu.Lock()
	c.rec.queries = append(c.rec.queries, q)
	c.rec.mu.Unlock()
	return huntK1Rows{}, nil
}

type huntK1Rows struct{}

func (huntK1Rows) Columns() []string         { return []string{} }
func (huntK1Rows) Close() error              { return nil }
func (huntK1Rows) Next([]driver.Value) error { return io.EOF }
