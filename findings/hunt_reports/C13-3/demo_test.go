package ledger

import (
	"context"
	"math/big"
	"testing"

	"github.com/stretchr/testify/require"
	"github.com/uptrace/bun"
	"go.uber.org/mock/gomock"

	logging "github.com/formancehq/go-libs/v5/pkg/observe/log"
	"github.com/formancehq/go-libs/v5/pkg/storage/postgres"
	"github.com/formancehq/go-libs/v5/pkg/types/pointer"

	ledger "github.com/formancehq/ledger/internal"
	"github.com/formancehq/ledger/internal/machine"
	ledgerstore "github.com/formancehq/ledger/internal/storage/ledger"
)

// Two concurrent creations share the idempotency key "k" and the same input: "send [USD 100] from
// alice to bob" while alice owns exactly 100.
// The mocked store / runtime play what the losing request sees:
//   - its lookup of the key finds nothing (the twin has not committed yet),
//   - its first execution is the victim of a deadlock with the twin (postgres.ErrDeadlockDetected),
//     the twin commits: alice is now at 0 and the log of the twin is visible under the key,
//   - forgeLogRetry runs the script again WITHOUT reading the key again: insufficient funds.
//
// The money of the request HAS moved (committed by the twin under the same key): the loser must get the log
// of the twin back as an idempotency hit (or a retryable / conflict error), never INSUFFICIENT_FUND.
func TestHuntRetryAfterDeadlockDoesNotLookUpTheKeyAgain(t *testing.T) {
	t.Parallel()

	ctx := logging.TestingContext()
	ctrl := gomock.NewController(t)
	store := NewMockStore(ctrl)
	parser := NewMockNumscriptParser(ctrl)
	runtime := NewMockNumscriptRuntime(ctrl)

	l := NewDefaultController(
		ledger.Ledger{},
		store,
		parser,
		NewMockNumscriptParser(ctrl),
		NewMockNumscriptParser(ctrl),
	)

	parameters := Parameters[CreateTransaction]{
		IdempotencyKey: "k",
		Input: CreateTransaction{
			RunScript: RunScript{
				Script: Script{
					Plain: `send [USD 100] (
	source = @alice
	destination = @bob
)`,
				},
			},
		},
	}

	twinLog := &ledger.Log{
		ID:              pointer.For(uint64(1)),
		Type:            ledger.NewTransactionLogType,
		IdempotencyKey:  "k",
		IdempotencyHash: ledger.ComputeIdempotencyHash(parameters.Input),
		Data: ledger.CreatedTransaction{
			Transaction: ledger.NewTransaction().
				WithPostings(ledger.NewPosting("alice", "bob", "USD", big.NewInt(100))).
				WithID(1),
			AccountMetadata: ledger.AccountMetadata{},
		},
	}

	twinCommitted := false

	store.EXPECT().BeginTX(gomock.Any(), gomock.Any()).Return(store, &bun.Tx{}, nil).AnyTimes()
	store.EXPECT().Rollback(gomock.Any()).Return(nil).AnyTimes()
	store.EXPECT().Commit(gomock.Any()).Return(nil).AnyTimes()
	store.EXPECT().FindLatestSchemaVersion(gomock.Any()).Return(nil, nil).AnyTimes()
	store.EXPECT().
		ReadLogWithIdempotencyKey(gomock.Any(), "k").
		DoAndReturn(func(context.Context, string) (*ledger.Log, error) {
			if !twinCommitted {
				return nil, postgres.ErrNotFound
			}
			return twinLog, nil
		}).
		AnyTimes()
	parser.EXPECT().Parse(parameters.Input.Plain).Return(runtime, nil).AnyTimes()
	runtime.EXPECT().
		Execute(gomock.Any(), gomock.Any(), gomock.Any()).
		DoAndReturn(func(context.Context, Store, map[string]string) (*NumscriptExecutionResult, error) {
			if !twinCommitted {
				// deadlock with the twin, which is not the victim and commits
				twinCommitted = true
				return nil, postgres.ErrDeadlockDetected
			}
			// the 100 USD of alice have been moved by the twin
			return nil, machine.NewErrInsufficientFund("insufficient fund for alice/USD")
		}).
		AnyTimes()
	store.EXPECT().CommitTransaction(gomock.Any(), gomock.Any()).Return(nil).AnyTimes()
	store.EXPECT().UpsertAccounts(gomock.Any(), gomock.Any()).Return(nil).AnyTimes()
	store.EXPECT().
		InsertLog(gomock.Any(), gomock.Any()).
		DoAndReturn(func(_ context.Context, log *ledger.Log) error {
			if twinCommitted && log.IdempotencyKey == "k" {
				return ledgerstore.NewErrIdempotencyKeyConflict("k")
			}
			log.ID = pointer.For(uint64(1))
			return nil
		}).
		AnyTimes()

	log, _, hit, err := l.CreateTransaction(ctx, parameters)

	require.NotErrorIs(t, err, &ErrInsufficientFunds{},
		"after a deadlock the request is run again without looking up its idempotency key: business error contradicting the committed outcome")
	if err == nil {
		require.True(t, hit)
		require.Equal(t, uint64(1), *log.ID)
	}
}
