package ledger

import (
	"context"
	"encoding/json"
	"errors"
	"testing"

	"github.com/stretchr/testify/require"
	"github.com/uptrace/bun"
	"go.uber.org/mock/gomock"

	"github.com/formancehq/go-libs/v5/pkg/types/metadata"
	"github.com/formancehq/go-libs/v5/pkg/types/pointer"

	ledger "github.com/formancehq/ledger/internal"
)

type huntC29x2Effects struct {
	upserted  []string
	committed bool
}

func huntC29x2Setup(t *testing.T, mode SchemaEnforcementMode) (*DefaultController, *huntC29x2Effects) {
	t.Helper()

	var data ledger.SchemaData
	require.NoError(t, json.Unmarshal([]byte(`{"chart": {"world": {}, "bank": {"$id": {".pattern": "^[0-9]{3}$"}}}}`), &data))
	schema, err := ledger.NewSchema("v1", data)
	require.NoError(t, err)

	ctrl := gomock.NewController(t)
	store := NewMockStore(ctrl)
	eff := &huntC29x2Effects{}
	store.EXPECT().BeginTX(gomock.Any(), nil).Return(store, &bun.Tx{}, nil).AnyTimes()
	store.EXPECT().FindSchema(gomock.Any(), "v1").Return(&schema, nil).AnyTimes()
	store.EXPECT().FindLatestSchemaVersion(gomock.Any()).Return(pointer.For("v1"), nil).AnyTimes()
	store.EXPECT().UpsertAccounts(gomock.Any(), gomock.Any()).
		DoAndReturn(func(_ context.Context, accounts ...ledger.AccountWithDefaultMetadata) error {
			for _, a := range accounts {
				eff.upserted = append(eff.upserted, a.Address)
			}
			return nil
		}).AnyTimes()
	store.EXPECT().InsertLog(gomock.Any(), gomock.Any()).
		DoAndReturn(func(_ context.Context, log *ledger.Log) error {
			log.ID = pointer.For(uint64(1))
			return nil
		}).AnyTimes()
	store.EXPECT().Commit(gomock.Any()).
		DoAndReturn(func(_ context.Context) error {
			eff.committed = true
			return nil
		}).AnyTimes()
	store.EXPECT().Rollback(gomock.Any()).Return(nil).AnyTimes()

	p := NewDefaultNumscriptParser()
	return NewDefaultController(ledger.Ledger{}, store, p, p, NewInterpreterNumscriptParser(nil),
		WithSchemaEnforcementMode(mode)), eff
}

// POST /v2/{ledger}/accounts/bank:abc/metadata?schemaVersion=v1 in strict mode: `bank:abc` does not
// match the chart (`bank:$id` requires ^[0-9]{3}$), yet the write is accepted and the account is created.
func TestHuntC29StrictSaveAccountMetadataOutsideChart(t *testing.T) {
	for _, address := range []string{"bank:abc", "ghost"} {
		t.Run(address, func(t *testing.T) {
			params := Parameters[SaveAccountMetadata]{
				SchemaVersion: "v1",
				Input:         SaveAccountMetadata{Address: address, Metadata: metadata.Metadata{"k": "v"}},
			}

			// audit mode accepts it (and must keep accepting it)
			l, eff := huntC29x2Setup(t, SchemaEnforcementAudit)
			_, _, err := l.SaveAccountMetadata(context.Background(), params)
			require.NoError(t, err)
			require.True(t, eff.committed)

			// an account the chart declares is accepted in strict mode
			l, eff = huntC29x2Setup(t, SchemaEnforcementStrict)
			okParams := params
			okParams.Input.Address = "bank:012"
			_, _, err = l.SaveAccountMetadata(context.Background(), okParams)
			require.NoError(t, err)
			require.True(t, eff.committed)

			// strict mode must reject an account the chart does not accept, with no effect
			l, eff = huntC29x2Setup(t, SchemaEnforcementStrict)
			_, _, err = l.SaveAccountMetadata(context.Background(), params)
			require.Error(t, err, "strict mode created account `%s`, which the chart does not accept (upserted accounts: %v)", address, eff.upserted)
			require.True(t, errors.Is(err, ErrSchemaValidationError{}), "unexpected error: %v", err)
			require.False(t, eff.committed, "the rejected write must not be committed")
		})
	}
}
