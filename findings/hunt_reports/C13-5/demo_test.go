package v1

import (
	"net/http"
	"net/http/httptest"
	"os"
	"testing"

	"github.com/stretchr/testify/require"
	"go.uber.org/mock/gomock"

	"github.com/formancehq/go-libs/v5/pkg/authn/jwt"
	"github.com/formancehq/go-libs/v5/pkg/transport/api"

	"github.com/formancehq/ledger/internal/api/common"
	ledgercontroller "github.com/formancehq/ledger/internal/controller/ledger"
)

// POST /v1/{ledger}/transactions/{id}/revert reads the Idempotency-Key header (getCommandParameters) but its
// error mapping falls back on common.HandleCommonErrors instead of common.HandleCommonWriteErrors:
//   - a key reused with a different input (ErrInvalidIdempotencyInput, e.g. key first used to revert transaction 0,
//     then sent on the revert of transaction 1) is answered 500 INTERNAL instead of 400 VALIDATION,
//   - an idempotency key conflict (ErrIdempotencyKeyConflict) is answered 500 INTERNAL instead of 409 CONFLICT.
func TestHuntV1RevertIdempotencyErrorsAre500(t *testing.T) {
	t.Parallel()

	type testCase struct {
		name             string
		returnErr        error
		expectStatusCode int
		expectErrorCode  string
	}
	for _, tc := range []testCase{
		{
			name:             "idempotency key reused with a different input",
			returnErr:        ledgercontroller.ErrInvalidIdempotencyInput{},
			expectStatusCode: http.StatusBadRequest,
			expectErrorCode:  common.ErrValidation,
		},
		{
			name:             "idempotency key conflict",
			returnErr:        ledgercontroller.NewErrIdempotencyKeyConflict("k1"),
			expectStatusCode: http.StatusConflict,
			expectErrorCode:  common.ErrConflict,
		},
	} {
		t.Run(tc.name, func(t *testing.T) {
			t.Parallel()

			systemController, ledgerController := newTestingSystemController(t, true)
			ledgerController.
				EXPECT().
				RevertTransaction(gomock.Any(), ledgercontroller.Parameters[ledgercontroller.RevertTransaction]{
					IdempotencyKey: "k1",
					Input: ledgercontroller.RevertTransaction{
						TransactionID: 1,
					},
				}).
				Return(nil, nil, false, tc.returnErr)

			router := NewRouter(systemController, jwt.NewNoAuth(), "develop", os.Getenv("DEBUG") == "true")

			req := httptest.NewRequest(http.MethodPost, "/xxx/transactions/1/revert", nil)
			req.Header.Set("Idempotency-Key", "k1")
			rec := httptest.NewRecorder()

			router.ServeHTTP(rec, req)

			require.Equal(t, tc.expectStatusCode, rec.Code, rec.Body.String())
			errResponse := api.ErrorResponse{}
			api.Decode(t, rec.Body, &errResponse)
			require.EqualValues(t, tc.expectErrorCode, errResponse.ErrorCode)
		})
	}
}
