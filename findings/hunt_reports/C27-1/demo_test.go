package v2

import (
	"context"
	"fmt"
	"net/http"
	"net/http/httptest"
	"testing"

	"github.com/stretchr/testify/require"
	"go.uber.org/mock/gomock"

	"github.com/formancehq/go-libs/v5/pkg/authn/jwt"
	"github.com/formancehq/go-libs/v5/pkg/transport/api"

	ledger "github.com/formancehq/ledger/internal"
	"github.com/formancehq/ledger/internal/api/bulking"
	ledgercontroller "github.com/formancehq/ledger/internal/controller/ledger"
)

// TestHuntMachineRuntimeErrorIs5xx posts client scripts that compile fine but fail at run time in the
// (legacy) machine runtime. The ledger controller mock runs the REAL machine parser and runtime
// (DefaultNumscriptParser + MachineNumscriptRuntimeAdapter) and wraps the error exactly like
// DefaultController.createTransaction does. None of these scripts touches the store (sources are @world).
// A script error caused by the client's own input must be answered with a 4xx, never a 5xx.
func TestHuntMachineRuntimeErrorIs5xx(t *testing.T) {
	type tc struct {
		name   string
		script string
		vars   map[string]any
	}
	for _, c := range []tc{
		{
			name:   "fail statement",
			script: "fail",
		},
		{
			name:   "negative monetary expression",
			script: "send [COIN 5] - [COIN 10] (\n source = @world\n destination = @a\n)",
		},
		{
			name:   "mixed assets in monetary expression",
			script: "send [COIN 5] - [EUR 2] (\n source = @world\n destination = @a\n)",
		},
		{
			name:   "variable portions exceed 100%",
			script: "vars {\nportion $p\nportion $q\n}\nsend [COIN 10] (\n source = @world\n destination = {\n $p to @x\n $q to @y\n remaining kept\n}\n)",
			vars:   map[string]any{"p": "2/3", "q": "2/3"},
		},
	} {
		t.Run(c.name, func(t *testing.T) {
			systemController, ledgerController := newTestingSystemController(t, true)
			ledgerController.EXPECT().
				CreateTransaction(gomock.Any(), gomock.Any()).
				DoAndReturn(func(ctx context.Context, parameters ledgercontroller.Parameters[ledgercontroller.CreateTransaction]) (*ledger.Log, *ledger.CreatedTransaction, bool, error) {
					// same steps and same error wrapping as DefaultController.createTransaction
					m, err := ledgercontroller.NewDefaultNumscriptParser().Parse(parameters.Input.Plain)
					if err != nil {
						return nil, nil, false, fmt.Errorf("failed to compile script: %w", err)
					}
					_, err = m.Execute(ctx, nil, parameters.Input.Vars)
					require.Error(t, err, "the script is expected to fail at run time")
					return nil, nil, false, fmt.Errorf("failed to execute program: %w", err)
				})

			router := NewRouter(systemController, jwt.NewNoAuth(), "develop")
			req := httptest.NewRequest(http.MethodPost, "/xxx/transactions", api.Buffer(t, bulking.TransactionRequest{
				Script: ledgercontroller.ScriptV1{
					Script: ledgercontroller.Script{Plain: c.script},
					Vars:   c.vars,
				},
			}))
			rec := httptest.NewRecorder()
			router.ServeHTTP(rec, req)

			require.Less(t, rec.Code, 500, "client script error answered with %d: %s", rec.Code, rec.Body.String())
			require.GreaterOrEqual(t, rec.Code, 400)
		})
	}
}
