package ledger

import (
	"context"
	"encoding/json"
	"errors"
	"testing"

	"github.com/stretchr/testify/require"
	"github.com/uptrace/bun"
	"go.uber.org/mock/gomock"

	"github.com/formancehq/go-libs/v5/pkg/types/metadata"
	"github.com/formancehq/go-libs/v5/pkg/types/pointer"

	ledger "github.com/formancehq/ledger/internal"
	"github.com/formancehq/ledger/internal/machine/vm"
)

type huntC29x1Effects struct {
	upserted  []string
	committed bool
	logs      int
}

func huntC29x1Setup(t *testing.T, mode SchemaEnforcementMode) (*DefaultController, *huntC29x1Effects) {
	t.Helper()

	var data ledger.SchemaData
	require.NoError(t, json.Unmarshal([]byte(`{"chart": {"world": {}, "bank": {}}}`), &data))
	schema, err := ledger.NewSchema("v1", data)
	require.NoError(t, err)

	ctrl := gomock.NewController(t)
	store := NewMockStore(ctrl)
	eff := &huntC29x1Effects{}
	store.EXPECT().BeginTX(gomock.Any(), nil).Return(store, &bun.Tx{}, nil).AnyTimes()
	store.EXPECT().FindSchema(gomock.Any(), "v1").Return(&schema, nil).AnyTimes()
	store.EXPECT().FindLatestSchemaVersion(gomock.Any()).Return(pointer.For("v1"), nil).AnyTimes()
	store.EXPECT().CommitTransaction(gomock.Any(), gomock.Any()).Return(nil).AnyTimes()
	store.EXPECT().UpsertAccounts(gomock.Any(), gomock.Any()).
		DoAndReturn(func(_ context.Context, accounts ...ledger.AccountWithDefaultMetadata) error {
			for _, a := range accounts {
				eff.upserted = append(eff.upserted, a.Address)
			}
			return nil
		}).AnyTimes()
	store.EXPECT().InsertLog(gomock.Any(), gomock.Any()).
		DoAndReturn(func(_ context.Context, log *ledger.Log) error {
			log.ID = pointer.For(uint64(1))
			eff.logs++
			return nil
		}).AnyTimes()
	store.EXPECT().Commit(gomock.Any()).
		DoAndReturn(func(_ context.Context) error {
			eff.committed = true
			return nil
		}).AnyTimes()
	store.EXPECT().Rollback(gomock.Any()).Return(nil).AnyTimes()

	p := NewDefaultNumscriptParser()
	return NewDefaultController(ledger.Ledger{}, store, p, p, NewInterpreterNumscriptParser(nil),
		WithSchemaEnforcementMode(mode)), eff
}

const huntC29x1Send = `send [USD 1] (
  source = @world
  destination = @bank
)`

// Strict mode, chart declares only `world` and `bank`. The postings are fine, but the
// transaction also writes metadata on `ghost:account`, an account the chart does not accept.
// The write is accepted and the undeclared account is created.
func TestHuntC29StrictTxAccountMetadataOutsideChart(t *testing.T) {
	for name, input := range map[string]CreateTransaction{
		"accountMetadata request field": {
			RunScript:       RunScript{Script: vm.Script{Plain: huntC29x1Send}},
			AccountMetadata: map[string]metadata.Metadata{"ghost:account": {"k": "v"}},
		},
		"set_account_meta in script": {
			RunScript: RunScript{Script: vm.Script{Plain: huntC29x1Send + "\nset_account_meta(@ghost:account, \"k\", \"v\")"}},
		},
	} {
		t.Run(name, func(t *testing.T) {
			// audit mode accepts it (and must keep accepting it)
			l, eff := huntC29x1Setup(t, SchemaEnforcementAudit)
			_, _, _, err := l.CreateTransaction(context.Background(), Parameters[CreateTransaction]{SchemaVersion: "v1", Input: input})
			require.NoError(t, err)
			require.True(t, eff.committed)

			// strict mode must reject it with no effect
			l, eff = huntC29x1Setup(t, SchemaEnforcementStrict)
			_, _, _, err = l.CreateTransaction(context.Background(), Parameters[CreateTransaction]{SchemaVersion: "v1", Input: input})
			require.Error(t, err, "strict mode accepted a transaction creating account `ghost:account`, which the chart does not declare (upserted accounts: %v)", eff.upserted)
			require.True(t, errors.Is(err, ErrSchemaValidationError{}), "unexpected error: %v", err)
			require.False(t, eff.committed, "the rejected write must not be committed")
		})
	}
}
