package v2

import (
	"context"
	"database/sql"
	"database/sql/driver"
	"io"
	"net/http"
	"net/http/httptest"
	"sync"
	"testing"

	"github.com/stretchr/testify/require"
	"github.com/uptrace/bun"
	"github.com/uptrace/bun/dialect/pgdialect"
	"go.uber.org/mock/gomock"

	"github.com/formancehq/go-libs/v5/pkg/authn/jwt"

	ledger "github.com/formancehq/ledger/internal"
	ledgercontroller "github.com/formancehq/ledger/internal/controller/ledger"
	systemcontroller "github.com/formancehq/ledger/internal/controller/system"
	ledgerstore "github.com/formancehq/ledger/internal/storage/ledger"
	"github.com/formancehq/ledger/pkg/features"
)

// expand on a resource without expansions: the storage handlers return a plain error ('no expansion available'), which HandleCommonPaginationErrors answers with a 500.
func TestHuntK3ExpandOnVolumesAndLogsIs500(t *testing.T) {
	router, _ := newHuntK3Router(t, features.DefaultFeatures)
	for _, target := range []string{
		"/xxx/volumes?expand=volumes",
		"/xxx/logs?expand=a",
	} {
		req := httptest.NewRequest(http.MethodGet, target, nil)
		rec := httptest.NewRecorder()
		router.ServeHTTP(rec, req)
		require.Truef(t, rec.Code >= 400 && rec.Code < 500 || rec.Code == http.StatusOK,
			"GET %s: client-side invalid input answered with %d %s", target, rec.Code, rec.Body.String())
	}
}

type huntK3Ctrl struct{ ledgercontroller.Controller }

func (huntK3Ctrl) IsDatabaseUpToDate(context.Context) (bool, error) { return true, nil }

// newHuntK3Router serves the real router over the real ledger controller and the real
// storage code; only the database/sql driver is a stub (no rows, SQL text recorded).
func newHuntK3Router(t *testing.T, featureSet features.FeatureSet) (http.Handler, *huntK3Recorder) {
	t.Helper()
	rec := &huntK3Recorder{}
	db := bun.NewDB(sql.OpenDB(huntK3Connector{rec: rec}), pgdialect.New())
	t.Cleanup(func() { _ = db.Close() })
	l := ledger.MustNewWithDefault("xxx")
	l.Bucket = "b0"
	l.Features = featureSet
	store := ledgerstore.New(db, nil, l)
	real := ledgercontroller.NewDefaultController(l, systemcontroller.NewDefaultStoreAdapter(store), nil, nil, nil)

	ctrl := gomock.NewController(t)
	backend := NewSystemController(ctrl)
	backend.EXPECT().GetLedger(gomock.Any(), gomock.Any()).MinTimes(0).Return(&l, nil)
	backend.EXPECT().GetLedgerController(gomock.Any(), gomock.Any()).MinTimes(0).Return(huntK3Ctrl{real}, nil)
	return NewRouter(backend, jwt.NewNoAuth(), "develop"), rec
}

// ---- offline stub database/sql driver: records the SQL text bun sends, returns no rows ----

type huntK3Recorder struct {
	mu      sync.Mutex
	queries []string
}

func (r *huntK3Recorder) all() []string {
	r.mu.Lock()
	defer r.mu.Unlock()
	return append([]string{}, r.queries...)
}

type huntK3Connector struct{ rec *huntK3Recorder }

func (c huntK3Connector) Connect(context.Context) (driver.Conn, error) {
	return &huntK3Conn{rec: c.rec}, nil
}
func (c huntK3Connector) Driver() driver.Driver { return huntK3Driver{} }

type huntK3Driver struct{}

func (huntK3Driver) Open(string) (driver.Conn, error) { return nil, io.ErrUnexpectedEOF }

type huntK3Conn struct{ rec *huntK3Recorder }

func (c *huntK3Conn) Prepare(string) (driver.Stmt, error) { return nil, io.ErrUnexpectedEOF }
func (c *huntK3Conn) Close() error                        { return nil }
func (c *huntK3Conn) Begin() (driver.Tx, error)           { return nil, io.ErrUnexpectedEOF }
func (c *huntK3Conn) QueryContext(_ context.Context, q string, _ []driver.NamedValue) (driver.Rows, error) {
	c.rec.mu.Lock()
	c.rec.queries = append(c.rec.queries, q)
	c.rec.mu.Unlock()
	return huntK3Rows{}, nil
}

type huntK3Rows struct{}

func (huntK3Rows) Columns() []string         { return []string{} }
func (huntK3Rows) Close() error              { return nil }
func (huntK3Rows) Next([]driver.Value) error { return io.EOF }
