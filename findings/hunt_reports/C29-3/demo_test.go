package ledger

import (
	"encoding/json"
	"testing"

	"github.com/stretchr/testify/require"
)

// `users:$id` has no pattern, so it declares an account for ANY id, and `users:$id:main` below it.
// As soon as a sibling fixed segment `vip` exists (declaring only `users:vip:perks`), the lookup
// commits to the fixed branch and never falls back to the variable one: `users:vip` and
// `users:vip:main` are rejected although the chart declares them through `$id`.
func TestHuntC29ChartFixedSegmentShadowsVariableSegment(t *testing.T) {
	var chart ChartOfAccounts
	require.NoError(t, json.Unmarshal([]byte(`{
		"world": {},
		"users": {
			"vip": { "perks": {} },
			"$id": { ".self": {}, ".metadata": {"kind": {"default": "user"}}, "main": {} }
		}
	}`), &chart))

	// sanity: any other id is accepted through the variable segment
	acc, err := chart.FindAccountSchema("users:bob")
	require.NoError(t, err)
	require.Equal(t, "user", acc.DefaultMetadata()["kind"])
	_, err = chart.FindAccountSchema("users:bob:main")
	require.NoError(t, err)
	_, err = chart.FindAccountSchema("users:vip:perks")
	require.NoError(t, err)

	// the same addresses with id = "vip" are declared by `$id` too
	acc, err = chart.FindAccountSchema("users:vip")
	require.NoError(t, err, "`users:vip` matches the pattern-less variable segment `users:$id`")
	require.Equal(t, "user", acc.DefaultMetadata()["kind"])

	_, err = chart.FindAccountSchema("users:vip:main")
	require.NoError(t, err, "`users:vip:main` matches `users:$id:main`")

	require.NoError(t, chart.ValidatePosting(NewPosting("world", "users:vip:main", "USD", nil)))
}
