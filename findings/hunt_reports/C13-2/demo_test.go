package ledger

import (
	"context"
	"math/big"
	"testing"

	"github.com/stretchr/testify/require"
	"github.com/uptrace/bun"
	"go.uber.org/mock/gomock"

	logging "github.com/formancehq/go-libs/v5/pkg/observe/log"
	"github.com/formancehq/go-libs/v5/pkg/storage/postgres"
	"github.com/formancehq/go-libs/v5/pkg/types/pointer"
	"github.com/formancehq/go-libs/v5/pkg/types/time"

	ledger "github.com/formancehq/ledger/internal"
	ledgerstore "github.com/formancehq/ledger/internal/storage/ledger"
)

// Two concurrent reverts of transaction 1 share the idempotency key "k" and the same input.
// The mocked store plays the interleaving seen by the request which loses the race:
//   - its lookup of the key finds nothing (the twin has not committed yet),
//   - its store.RevertTransaction waits for the row locked by the twin; the twin commits (transaction
//     reverted, log with the key written) and the call answers "not modified",
//   - from then on the log of the twin is visible under the key, and inserting another log with the key conflicts.
//
// The committed outcome for the key is "transaction 1 reverted by this request": the loser must get this
// log back as an idempotency hit (or a retryable / conflict error), never ALREADY_REVERT, which tells the
// client its own revert was refused.
func TestHuntConcurrentTwinRevertGetsBusinessError(t *testing.T) {
	t.Parallel()

	ctx := logging.TestingContext()
	ctrl := gomock.NewController(t)
	store := NewMockStore(ctrl)

	l := NewDefaultController(
		ledger.Ledger{},
		store,
		NewMockNumscriptParser(ctrl),
		NewMockNumscriptParser(ctrl),
		NewMockNumscriptParser(ctrl),
	)

	parameters := Parameters[RevertTransaction]{
		IdempotencyKey: "k",
		Input: RevertTransaction{
			TransactionID: 1,
		},
	}

	now := time.Now()
	original := ledger.NewTransaction().
		WithPostings(ledger.NewPosting("world", "bank", "USD", big.NewInt(100))).
		WithID(1)
	original.RevertedAt = &now
	twinLog := &ledger.Log{
		ID:              pointer.For(uint64(2)),
		Type:            ledger.RevertedTransactionLogType,
		IdempotencyKey:  "k",
		IdempotencyHash: ledger.ComputeIdempotencyHash(parameters.Input),
		Data: ledger.RevertedTransaction{
			RevertedTransaction: original,
			RevertTransaction:   original.Reverse().WithID(2),
		},
	}

	twinCommitted := false

	store.EXPECT().BeginTX(gomock.Any(), gomock.Any()).Return(store, &bun.Tx{}, nil).AnyTimes()
	store.EXPECT().Rollback(gomock.Any()).Return(nil).AnyTimes()
	store.EXPECT().Commit(gomock.Any()).Return(nil).AnyTimes()
	store.EXPECT().FindLatestSchemaVersion(gomock.Any()).Return(nil, nil).AnyTimes()
	store.EXPECT().
		ReadLogWithIdempotencyKey(gomock.Any(), "k").
		DoAndReturn(func(context.Context, string) (*ledger.Log, error) {
			if !twinCommitted {
				return nil, postgres.ErrNotFound
			}
			return twinLog, nil
		}).
		AnyTimes()
	store.EXPECT().
		RevertTransaction(gomock.Any(), uint64(1), gomock.Any()).
		DoAndReturn(func(context.Context, uint64, time.Time) (*ledger.Transaction, bool, error) {
			// blocked on the row until the twin commits, then: already reverted
			twinCommitted = true
			cp := original
			return &cp, false, nil
		}).
		AnyTimes()
	store.EXPECT().GetBalances(gomock.Any(), gomock.Any()).Return(ledger.Balances{}, nil).AnyTimes()
	store.EXPECT().CommitTransaction(gomock.Any(), gomock.Any()).Return(nil).AnyTimes()
	store.EXPECT().
		InsertLog(gomock.Any(), gomock.Any()).
		DoAndReturn(func(_ context.Context, log *ledger.Log) error {
			if twinCommitted && log.IdempotencyKey == "k" {
				return ledgerstore.NewErrIdempotencyKeyConflict("k")
			}
			log.ID = pointer.For(uint64(2))
			return nil
		}).
		AnyTimes()

	log, _, hit, err := l.RevertTransaction(ctx, parameters)

	require.NotErrorIs(t, err, ErrAlreadyReverted{},
		"the loser of two concurrent reverts sharing an idempotency key got a business error contradicting the committed outcome")
	if err == nil {
		require.True(t, hit)
		require.Equal(t, uint64(2), *log.ID)
	}
}
