package vm

import (
	"context"
	"math/big"
	"testing"

	"github.com/stretchr/testify/require"

	ledger "github.com/formancehq/ledger/internal"
	"github.com/formancehq/ledger/internal/machine"
	"github.com/formancehq/ledger/internal/machine/script/compiler"
)

func huntSaveRun(t *testing.T, script string) (*Machine, error) {
	t.Helper()
	p, err := compiler.Compile(script)
	require.NoError(t, err)
	m := NewMachine(*p)
	m.Printer = func(c chan machine.Value) {
		for range c {
		}
	}
	store := StaticStore{
		"a": &AccountWithBalances{
			Account:  ledger.Account{Address: "a"},
			Balances: map[string]*big.Int{"COIN": big.NewInt(100)},
		},
	}
	require.NoError(t, m.SetVarsFromJSON(map[string]string{}))
	require.NoError(t, m.ResolveResources(context.Background(), store))
	require.NoError(t, m.ResolveBalances(context.Background(), store))
	return m, m.Execute()
}

// `save <monetary expression> from @a` must protect the VALUE of the expression.
// The compiler evaluates the expression with push=false and then pushes only the resource address of the
// left-most operand, so `save [COIN 5] + [COIN 10] from @a` saves 5 instead of 15 (and `[COIN 10] - [COIN 5]` saves 10).
func TestHuntSaveMonetaryExpressionAdd(t *testing.T) {
	// @a holds 100; 15 are saved, so only 85 may leave the account: sending 90 has to fail.
	m, err := huntSaveRun(t, "save [COIN 5] + [COIN 10] from @a\nsend [COIN 90] (\n source = @a\n destination = @b\n)")
	require.Error(t, err, "90 COIN left @a although 15 of its 100 COIN were saved; postings: %v", m.Postings)
	require.True(t, machine.IsInsufficientFundError(err))
}

func TestHuntSaveMonetaryExpressionSub(t *testing.T) {
	// @a holds 100; 10-5=5 are saved, so 95 may leave the account.
	m, err := huntSaveRun(t, "save [COIN 10] - [COIN 5] from @a\nsend [COIN 95] (\n source = @a\n destination = @b\n)")
	require.NoError(t, err)
	require.Len(t, m.Postings, 1)
	require.Equal(t, "95", m.Postings[0].Amount.String())
}
