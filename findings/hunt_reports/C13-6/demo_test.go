package ledger

import (
	"math/big"
	"testing"

	"github.com/stretchr/testify/require"
	"github.com/uptrace/bun"
	"go.uber.org/mock/gomock"

	logging "github.com/formancehq/go-libs/v5/pkg/observe/log"
	"github.com/formancehq/go-libs/v5/pkg/types/pointer"

	ledger "github.com/formancehq/ledger/internal"
)

// The idempotency hash only covers Parameters.Input: the schema version of the request (query parameter
// schemaVersion, stored on the log as log.SchemaVersion) is not compared.
// A creation made from the template "PAYOUT" of schema v1 with the key "k" is replayed with the same body but
// ?schemaVersion=v2, where the template "PAYOUT" is another script: this is a different input (another script would
// be executed, other postings), but the request is answered as an idempotency hit with the transaction built by v1
// instead of a validation error.
func TestHuntIKReusedWithAnotherSchemaVersionIsAHit(t *testing.T) {
	t.Parallel()

	ctx := logging.TestingContext()
	ctrl := gomock.NewController(t)
	store := NewMockStore(ctrl)

	l := NewDefaultController(
		ledger.Ledger{},
		store,
		NewMockNumscriptParser(ctrl),
		NewMockNumscriptParser(ctrl),
		NewMockNumscriptParser(ctrl),
	)

	input := CreateTransaction{
		RunScript: RunScript{
			Script: Script{
				Template: "PAYOUT",
				Vars:     map[string]string{"amount": "100"},
			},
		},
	}

	store.EXPECT().BeginTX(gomock.Any(), gomock.Any()).Return(store, &bun.Tx{}, nil).AnyTimes()
	store.EXPECT().Rollback(gomock.Any()).Return(nil).AnyTimes()
	store.EXPECT().
		ReadLogWithIdempotencyKey(gomock.Any(), "k").
		Return(&ledger.Log{
			ID:              pointer.For(uint64(1)),
			Type:            ledger.NewTransactionLogType,
			IdempotencyKey:  "k",
			IdempotencyHash: ledger.ComputeIdempotencyHash(input),
			SchemaVersion:   "v1",
			Data: ledger.CreatedTransaction{
				Transaction: ledger.NewTransaction().
					WithPostings(ledger.NewPosting("world", "bank", "USD", big.NewInt(100))).
					WithID(1),
			},
		}, nil).
		AnyTimes()

	_, _, hit, err := l.CreateTransaction(ctx, Parameters[CreateTransaction]{
		IdempotencyKey: "k",
		SchemaVersion:  "v2",
		Input:          input,
	})
	require.False(t, hit, "same key, other schema version (other template script): not the same request")
	require.ErrorIs(t, err, ErrInvalidIdempotencyInput{})
}
