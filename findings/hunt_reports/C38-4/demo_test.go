package v2

import (
	"context"
	"database/sql"
	"database/sql/driver"
	"io"
	"net/http"
	"net/http/httptest"
	"sync"
	"testing"

	"github.com/stretchr/testify/require"
	"github.com/uptrace/bun"
	"github.com/uptrace/bun/dialect/pgdialect"
	"go.uber.org/mock/gomock"

	"github.com/formancehq/go-libs/v5/pkg/authn/jwt"

	ledger "github.com/formancehq/ledger/internal"
	ledgercontroller "github.com/formancehq/ledger/internal/controller/ledger"
	systemcontroller "github.com/formancehq/ledger/internal/controller/system"
	ledgerstore "github.com/formancehq/ledger/internal/storage/ledger"
	"github.com/formancehq/ledger/pkg/features"
)

// expand=volumes / effectiveVolumes on a ledger whose MOVES_HISTORY features are off: the list endpoints answer 400 (ErrInvalidQuery / ErrMissingFeature), the read endpoints route the same errors to HandleCommonErrors, i.e. a 500.
func TestHuntK4ExpandWithFeatureOffOnReadIs500(t *testing.T) {
	router, _ := newHuntK4Router(t, features.MinimalFeatureSet)
	for _, target := range []string{
		"/xxx/accounts/foo?expand=volumes",
		"/xxx/accounts/foo?expand=effectiveVolumes",
		"/xxx/transactions/1?expand=effectiveVolumes",
	} {
		req := httptest.NewRequest(http.MethodGet, target, nil)
		rec := httptest.NewRecorder()
		router.ServeHTTP(rec, req)
		require.Truef(t, rec.Code >= 400 && rec.Code < 500 || rec.Code == http.StatusOK,
			"GET %s: client-side invalid input answered with %d %s", target, rec.Code, rec.Body.String())
	}
}

type huntK4Ctrl struct{ ledgercontroller.Controller }

func (huntK4Ctrl) IsDatabaseUpToDate(context.Context) (bool, error) { return true, nil }

// newHuntK4Router serves the real router over the real ledger controller and the real
// storage code; only the database/sql driver is a stub (no rows, SQL text recorded).
func newHuntK4Router(t *testing.T, featureSet features.FeatureSet) (http.Handler, *huntK4Recorder) {
	t.Helper()
	rec := &huntK4Recorder{}
	db := bun.NewDB(sql.OpenDB(huntK4Connector{rec: rec}), pgdialect.New())
	t.Cleanup(func() { _ = db.Close() })
	l := ledger.MustNewWithDefault("xxx")
	l.Bucket = "b0"
	l.Features = featureSet
	store := ledgerstore.New(db, nil, l)
	real := ledgercontroller.NewDefaultController(l, systemcontroller.NewDefaultStoreAdapter(store), nil, nil, nil)

	ctrl := gomock.NewController(t)
	backend := NewSystemController(ctrl)
	backend.EXPECT().GetLedger(gomock.Any(), gomock.Any()).MinTimes(0).Return(&l, nil)
	backend.EXPECT().GetLedgerController(gomock.Any(), gomock.Any()).MinTimes(0).Return(huntK4Ctrl{real}, nil)
	return NewRouter(backend, jwt.NewNoAuth(), "develop"), rec
}

// ---- offline stub database/sql driver: records the SQL text bun sends, returns no rows ----

type huntK4Recorder struct {
	mu      sync.Mutex
	queries []string
}

func (r *huntK4Recorder) all() []string {
	r.mu.Lock()
	defer r.mu.Unlock()
	return append([]string{}, r.queries...)
}

type huntK4Connector struct{ rec *huntK4Recorder }

func (c huntK4Connector) Connect(context.Context) (driver.Conn, error) {
	return &huntK4Conn{rec: c.rec}, nil
}
func (c huntK4Connector) Driver() driver.Driver { return huntK4Driver{} }

type huntK4Driver struct{}

func (huntK4Driver) Open(string) (driver.Conn, error) { return nil, io.ErrUnexpectedEOF }

type huntK4Conn struct{ rec *huntK4Recorder }

func (c *huntK4Conn) Prepare(string) (driver.Stmt, error) { return nil, io.ErrUnexpectedEOF }
func (c *huntK4Conn) Close() error                        { return nil }
func (c *huntK4Conn) Begin() (driver.Tx, error)           { return nil, io.ErrUnexpectedEOF }
func (c *huntK4Conn) QueryContext(_ context.Context, q string, _ []driver.NamedValue) (driver.Rows, error) {
	c.rec.mu.Lock()
	c.rec.queries = append(c.rec.queries, q)
	c.rec.mu.Unlock()
	return huntK4Rows{}, nil
}

type huntK4Rows struct{}

func (huntK4Rows) Columns() []string         { return []string{} }
func (huntK4Rows) Close() error              { return nil }
func (huntK4Rows) Next([]driver.Value) error { return io.EOF }
