package vm

// Demonstration for finding F4 (C27): two balance() variables on the same account (different assets) must both be
// resolved; the run must neither crash nor fail. Injected with `go test -overlay` into internal/machine/vm.
// (The test helper StaticStore.GetBalances returns only the last asset requested per account, so the demonstration uses
// a store of its own that answers every requested (account, asset) pair, as the real store does.)

import (
	"context"
	"math/big"
	"runtime/debug"
	"testing"

	ledger "github.com/formancehq/ledger/internal"
	"github.com/formancehq/ledger/internal/machine/script/compiler"
)

type f4Store map[string]map[string]int64

func (s f4Store) GetBalances(_ context.Context, q BalanceQuery) (Balances, error) {
	ret := Balances{}
	for account, assets := range q {
		ret[account] = map[string]*big.Int{}
		for _, asset := range assets {
			ret[account][asset] = big.NewInt(s[account][asset])
		}
	}
	return ret, nil
}

func (s f4Store) GetAccount(_ context.Context, address string) (*ledger.Account, error) {
	return &ledger.Account{Address: address}, nil
}

func TestFindingF4_TwoBalanceVariablesOnOneAccount(t *testing.T) {
	defer func() {
		if r := recover(); r != nil {
			t.Errorf("the machine panicked: %v\n%s", r, debug.Stack())
		}
	}()
	p, err := compiler.Compile(`
		vars {
		  monetary $usd = balance(@A, USD/2)
		  monetary $eur = balance(@A, EUR/2)
		}
		send [USD/2 100] (
		  source = @world
		  destination = {
			max $usd to @B
			remaining to @C
		  }
		)
		send [EUR/2 100] (
		  source = @world
		  destination = {
			max $eur to @B
			remaining to @C
		  }
		)`)
	if err != nil {
		t.Fatal(err)
	}
	m := NewMachine(*p)
	store := f4Store{"A": {"USD/2": 40, "EUR/2": 7}}
	if err := m.SetVarsFromJSON(map[string]string{}); err != nil {
		t.Fatal(err)
	}
	if err := m.ResolveResources(context.Background(), store); err != nil {
		t.Fatal(err)
	}
	if err := m.ResolveBalances(context.Background(), store); err != nil {
		t.Fatal(err)
	}
	if err := m.Execute(); err != nil {
		t.Fatal(err)
	}
	want := []struct {
		dst, asset string
		amount      int64
	}{{"B", "USD/2", 40}, {"C", "USD/2", 60}, {"B", "EUR/2", 7}, {"C", "EUR/2", 93}}
	if len(m.Postings) != len(want) {
		t.Fatalf("postings: %v", m.Postings)
	}
	for i, w := range want {
		p := m.Postings[i]
		if p.Destination != w.dst || p.Asset != w.asset || (*big.Int)(p.Amount).Int64() != w.amount {
			t.Errorf("posting %d: got %s %s %s, want %s %s %d", i, p.Destination, p.Asset, p.Amount, w.dst, w.asset, w.amount)
		}
	}
}
