package ledger

// Demonstration for findings F8 (C17), F12 and F13 (C35): injected with `go test -overlay` into
// internal/storage/ledger (no database needed: the queries are rendered to text with the pg dialect).
//
//	F8 : the point-in-time join of transactions_metadata must be decided by TRANSACTION_METADATA_HISTORY
//	F12: an accounts balance filter at a point in time reads moves.post_commit_effective_volumes and must be refused
//	     when MOVES_HISTORY_POST_COMMIT_EFFECTIVE_VOLUMES is DISABLED (the column is NULL then: no trigger maintains it)
//	F13: expand=effectiveVolumes on transactions must be refused when that feature is DISABLED

import (
	"errors"
	"strings"
	"testing"
	"time"

	"github.com/uptrace/bun"
	"github.com/uptrace/bun/dialect/pgdialect"

	libtime "github.com/formancehq/go-libs/v5/pkg/types/time"

	ledger "github.com/formancehq/ledger/internal"
	"github.com/formancehq/ledger/internal/storage/common"
	"github.com/formancehq/ledger/pkg/features"
)

func demoStore(fs features.FeatureSet) *Store {
	return &Store{db: bun.NewDB(nil, pgdialect.New()), ledger: ledger.Ledger{Name: "l", Configuration: ledger.Configuration{Bucket: "b", Features: fs}}}
}

func demoRender(t *testing.T, s *Store, q *bun.SelectQuery) string {
	t.Helper()
	sql, err := q.AppendQuery(s.db.(*bun.DB).QueryGen(), nil)
	if err != nil {
		t.Fatal(err)
	}
	return string(sql)
}

func TestFindingF8_TransactionHistoryJoinFollowsTransactionFeature(t *testing.T) {
	pit := libtime.New(time.Unix(1000, 0))
	for _, c := range []struct {
		tx, acc  string
		wantJoin bool
	}{{"SYNC", "SYNC", true}, {"SYNC", "DISABLED", true}, {"DISABLED", "SYNC", false}, {"DISABLED", "DISABLED", false}} {
		s := demoStore(features.MinimalFeatureSet.With(features.FeatureTransactionMetadataHistory, c.tx).With(features.FeatureAccountMetadataHistory, c.acc))
		var opts common.RepositoryHandlerBuildContext[any]
		opts.PIT = &pit
		q, err := transactionsResourceHandler{store: s}.BuildDataset(opts)
		if err != nil {
			t.Fatal(err)
		}
		got := strings.Contains(demoRender(t, s, q), "transactions_metadata")
		if got != c.wantJoin {
			t.Errorf("TRANSACTION_METADATA_HISTORY=%s ACCOUNT_METADATA_HISTORY=%s: history join present=%v, want %v", c.tx, c.acc, got, c.wantJoin)
		}
	}
}

func TestFindingF12_AccountBalanceFilterAtPITNeedsEffectiveVolumes(t *testing.T) {
	pit := libtime.New(time.Unix(1000, 0))
	s := demoStore(features.MinimalFeatureSet.With(features.FeatureMovesHistory, "ON"))
	var q common.ResourceQuery[any]
	q.PIT = &pit
	sql, _, err := accountsResourceHandler{store: s}.ResolveFilter(q, "$lt", "balance[USD]", 10)
	if err == nil && strings.Contains(sql, "post_commit_effective_volumes") {
		t.Errorf("balance filter at a point in time reads post_commit_effective_volumes although the feature is DISABLED, and no error is returned")
	}
	if err != nil && !errors.Is(err, ErrMissingFeature{}) {
		t.Errorf("want a missing-feature error, got %v", err)
	}
}

func TestFindingF13_TransactionsExpandEffectiveVolumesNeedsFeature(t *testing.T) {
	s := demoStore(features.MinimalFeatureSet.With(features.FeatureMovesHistory, "ON"))
	var q common.ResourceQuery[any]
	sel, _, err := transactionsResourceHandler{store: s}.Expand(q, "effectiveVolumes")
	if err == nil && sel != nil {
		t.Errorf("expand=effectiveVolumes is answered (from moves.post_commit_effective_volumes, NULL without the triggers) although the feature is DISABLED")
	}
}
